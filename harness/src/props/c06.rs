// C06 — the MALACHITE bignum backend is unobservable.
use crate::common::*;
use crate::opspace::*;
use crate::tree::{Enc, T, atom, list_t};
use clvmr::chia_dialect::ClvmFlags;
use serde_json::json;

const CEILING: u64 = 1 << 36;

fn check(op: u8, args: &T, flagsets: &[ClvmFlags], acc: &mut Acc) {
    for f in flagsets {
        let (plain, mal) = with_op(&[op], args, Enc::Inline, |a, o, n| {
            let p = call_op(a, o, n, *f, CEILING);
            let m = call_op(a, o, n, *f | ClvmFlags::MALACHITE, CEILING);
            (p, m)
        });
        acc.add("calls", 2);
        let canon = |b: u64| format!("op={op} args={} flags={:#x} budget={b}", args.hex(), f.bits());
        if plain.panicked || mal.panicked {
            acc.violation(canon(CEILING), format!("panic: num-bigint {} malachite {}", plain.brief(), mal.brief()));
            continue;
        }
        if plain != mal {
            // show result bytes
            acc.violation(canon(CEILING), format!("num-bigint {} but malachite {}", plain.brief(), mal.brief()));
            continue;
        }
        if plain.ok {
            acc.inc("both_succeed");
            acc.outcome(plain.cost ^ plain.digest as u64);
            for b in [plain.cost, plain.cost - 1] {
                let (p, m) = with_op(&[op], args, Enc::Inline, |a, o, n| (call_op(a, o, n, *f, b), call_op(a, o, n, *f | ClvmFlags::MALACHITE, b)));
                acc.add("calls", 2);
                if p != m {
                    acc.violation(canon(b), format!("num-bigint {} but malachite {}", p.brief(), m.brief()));
                }
            }
        } else {
            acc.inc("both_fail_same_error");
        }
    }
}

pub fn run(ctx: &Ctx) -> Report {
    let mut rep = Report::new("C06", "exploration");
    let alpha = ints(!ctx.quick());
    let flagsets: Vec<ClvmFlags> = vec![ClvmFlags::empty(), ClvmFlags::NEW_COST_MODEL, ClvmFlags::LIMITS, ClvmFlags::DISABLE_OP, ClvmFlags::LIMITS | ClvmFlags::DISABLE_OP, ClvmFlags::CANONICAL_INTS];
    let seed = ctx.seed;
    let k = alpha.len() as u64;
    // div, divmod, mod: arity 0..=3
    let max = ctx.pick(2usize, 3);
    let per = arg_lists_total(k, max);
    let alpha_ser: Vec<Vec<u8>> = alpha.iter().map(|t| t.ser()).collect();
    let acc = par_for(ctx, 3 * per, 64, |i| format!("divfamily#{i}"), |i, acc| {
        let alpha: Vec<T> = alpha_ser.iter().map(|b| crate::tree::deser(b).unwrap().0).collect();
        let op = [19u8, 20, 61][(i / per) as usize];
        let args = nth_arg_list(&alpha, max, i % per);
        check(op, &args, &flagsets, acc);
        acc.inc("arg_lists");
        acc.maybe_sample(sample_key(seed, i), || json!({"op": op, "args": args.hex()}));
    });
    rep.absorb(acc);
    // improper terminators for the two-argument forms
    let mut acc = Acc::default();
    for op in [19u8, 20, 61, 60] {
        for term in [atom(&[5]), atom(&[0x80, 0x00])] {
            for x in alpha.iter().take(6) {
                for y in alpha.iter().take(6) {
                    let args = list_t(&[x.clone(), y.clone()], term.clone());
                    check(op, &args, &flagsets, &mut acc);
                    let args3 = list_t(&[x.clone(), y.clone(), atom(&[7])], term.clone());
                    check(op, &args3, &flagsets, &mut acc);
                    acc.add("arg_lists", 2);
                }
            }
        }
    }
    rep.absorb(acc);
    // modpow: arity 0..=4, exponents <= 33 bytes; big base / modulus allowed
    let exps: Vec<T> = alpha.iter().filter(|t| t.bytes().map(|b| b.len() <= 33).unwrap_or(true)).cloned().collect();
    let exps_ser: Vec<Vec<u8>> = exps.iter().map(|t| t.ser()).collect();
    let ke = exps.len() as u64;
    let full = k * ke * k;
    let small: Vec<T> = alpha.iter().take(8).cloned().collect();
    let small_ser: Vec<Vec<u8>> = small.iter().map(|t| t.ser()).collect();
    let ks = small.len() as u64;
    let low = arg_lists_total(ks, 2) + ks.pow(4);
    let acc = par_for(ctx, full + low, 16, |i| format!("modpow#{i}"), |i, acc| {
        let alpha: Vec<T> = alpha_ser.iter().map(|b| crate::tree::deser(b).unwrap().0).collect();
        let args = if i < full {
            let exps: Vec<T> = exps_ser.iter().map(|b| crate::tree::deser(b).unwrap().0).collect();
            let b = &alpha[(i % k) as usize];
            let e = &exps[((i / k) % ke) as usize];
            let m = &alpha[(i / (k * ke)) as usize];
            crate::tree::list(&[b.clone(), e.clone(), m.clone()])
        } else {
            let small: Vec<T> = small_ser.iter().map(|b| crate::tree::deser(b).unwrap().0).collect();
            let j = i - full;
            let l2 = arg_lists_total(ks, 2);
            if j < l2 {
                nth_arg_list(&small, 2, j)
            } else {
                let mut r = j - l2;
                let mut items = vec![];
                for _ in 0..4 {
                    items.push(small[(r % ks) as usize].clone());
                    r /= ks;
                }
                crate::tree::list(&items)
            }
        };
        check(60, &args, &flagsets, acc);
        acc.inc("arg_lists");
        acc.maybe_sample(sample_key(seed, i ^ 0x5555), || json!({"op": 60, "args": args.hex()}));
    });
    rep.absorb(acc);
    // histories: the backend must not carry state from one call to the next. (h1) in ONE allocator: checkpoint, big
    // operand A, call, restore (A's NodePtr is handed out again), big operand B at the same index, call — the pair
    // of outcomes with MALACHITE must equal the pair without; every ordered pair of 4 big values, as dividend and
    // as divisor, 4 operators. (h2) whole programs with two big-operand calls in sequence under ENABLE_GC and
    // inside softfork guards, F vs F|MALACHITE.
    {
        use clvmr::allocator::NodePtr;
        let mut acc = Acc::default();
        let bigs: Vec<Vec<u8>> = vec![crate::domains::big_atom(64), vec![0x78; 70], { let mut v = vec![0x78; 70]; v[69] = 0x79; v }, crate::domains::big_atom(100)];
        let smalls: Vec<Vec<u8>> = vec![vec![7], vec![0x0f, 0x42, 0x43], { let mut v = crate::domains::big_atom(65); v[0] = 0x11; v }];
        for op in [19u8, 20, 61, 60] {
            for (ia, a_bytes) in bigs.iter().enumerate() {
                for (ib, b_bytes) in bigs.iter().enumerate() {
                    if ia == ib {
                        continue;
                    }
                    for sm in &smalls {
                        for big_first in [true, false] {
                            let canon = format!("op={op} history: checkpoint; big operand #{ia} ({}B) {} {}; restore; big operand #{ib} ({}B) at the same index; call again", a_bytes.len(), if big_first { "as first argument with" } else { "as last argument after" }, hx(sm), b_bytes.len());
                            guarded(&mut acc, &canon, |acc| {
                                let run = |flags: ClvmFlags| -> Vec<OpOutcome> {
                                    let mut a = crate::progspace::fresh_allocator(u32::MAX as usize);
                                    let opn = a.new_atom(&[op]).unwrap();
                                    let smn = a.new_atom(sm).unwrap();
                                    let three = a.new_atom(&[3]).unwrap();
                                    let cp = a.checkpoint();
                                    let mut outs = vec![];
                                    for bytes in [a_bytes, b_bytes] {
                                        let bn = a.new_atom(bytes).unwrap();
                                        let items: Vec<NodePtr> = match (op, big_first) {
                                            (60, true) => vec![bn, three, smn],
                                            (60, false) => vec![smn, three, bn],
                                            (_, true) => vec![bn, smn],
                                            (_, false) => vec![smn, bn],
                                        };
                                        let mut args = NodePtr::NIL;
                                        for it in items.iter().rev() {
                                            args = a.new_pair(*it, args).unwrap();
                                        }
                                        outs.push(call_op(&mut a, opn, args, flags, CEILING));
                                        a.restore_checkpoint(&cp);
                                    }
                                    outs
                                };
                                let plain = run(ClvmFlags::empty());
                                let mal = run(ClvmFlags::MALACHITE);
                                acc.add("calls", 4);
                                acc.inc("rewind_histories");
                                if plain != mal {
                                    acc.violation(canon.clone(), format!("num-bigint [{}] but malachite [{}]", plain.iter().map(|o| o.brief()).collect::<Vec<_>>().join(", "), mal.iter().map(|o| o.brief()).collect::<Vec<_>>().join(", ")));
                                }
                            });
                        }
                    }
                }
            }
        }
        // (h2)
        use crate::progspace::{parse_prog, with_loaded};
        let pad = crate::domains::big_atom(100);
        let env = crate::tree::list(&[atom(&pad)]);
        for opname in ["/", "divmod", "%"] {
            for shape in [
                "(c (OP (concat 2 (q . 7)) (q . 1000003)) (OP (concat 2 (q . 11)) (q . 1000003)))",
                "(c (OP (q . 1000003) (concat 2 (q . 7))) (OP (q . 1000003) (concat 2 (q . 11))))",
                "(c (OP (concat 2 (q . 7)) (q . 1000003)) (c (sha256 (concat 2 2 2 2 2 2 2 2 2 2 2)) (OP (concat 2 (q . 11)) (q . 1000003))))",
                "(a (q . (c (OP (concat 2 (q . 7)) (q . 13)) (a (q . (OP (concat 2 (q . 11)) (q . 13))) 1))) 1)",
            ] {
                let p = parse_prog(&shape.replace("OP", opname));
                for base in [ClvmFlags::empty(), ClvmFlags::ENABLE_GC, ClvmFlags::ENABLE_GC | ClvmFlags::NEW_COST_MODEL] {
                    let canon = format!("prog={} env=(100-byte atom) flags={:#x}", p.hex(), base.bits());
                    guarded(&mut acc, &canon, |acc| {
                        let (o1, o2) = with_loaded(&p, &env, Enc::Inline, |l| (l.run_flags(base, 0), l.run_flags(base | ClvmFlags::MALACHITE, 0)));
                        acc.add("calls", 2);
                        acc.inc("program_histories");
                        if o1.ok != o2.ok || o1.cost != o2.cost || o1.digest != o2.digest || o1.err != o2.err {
                            acc.violation(canon.clone(), format!("num-bigint {} but malachite {}", o1.brief(), o2.brief()));
                        }
                    });
                }
            }
        }
        rep.absorb(acc);
    }
    rep.evaluations = rep.acc.get("calls");
    rep.nontrivial = rep.acc.get("both_succeed");
    rep.states = rep.acc.get("arg_lists");
    rep.transitions = rep.acc.get("calls");
    rep.traces = rep.acc.get("arg_lists") * flagsets.len() as u64;
    rep.rule = format!("(plus call histories: two big operands at the same NodePtr index across a checkpoint restore, and programs with two big-operand calls under ENABLE_GC) div, divmod, mod over EVERY argument list of arity 0..={max} (and improper terminators) over a {}-value integer alphabet (boundary values in canonical / zero-padded / ff-padded form incl. eight zero bytes before 0x80, 257..2100-byte positive and negative operands, a pair); modpow over every (base, exponent <= 33 bytes, modulus) triple plus arities 0,1,2,4; x 6 flag sets, each called through ChiaDialect::op with and without MALACHITE under a high budget, the exact cost and cost-1; oracle: identical Ok(cost, result) or identical error string. Non-trivial = (argument list, flag set) pairs on which both backends succeed.", alpha.len());
    rep
}
