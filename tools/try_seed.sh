#!/bin/bash
# try_seed.sh <patchfile> <check id>...   apply a seeded change to /repo, run the named quick checks, revert.
PATCH=$1; shift
cd /repo || exit 2
if [ -n "$(git status --porcelain --untracked-files=no)" ]; then echo "/repo not clean"; exit 2; fi
git apply "$PATCH" || { echo "patch does not apply"; exit 2; }
cd /verif
for id in "$@"; do
  cp evidence/$id.json /tmp/try_seed_evidence_$id.json 2>/dev/null
  ./check $id --tier ${TIER:-quick} > /tmp/try_seed_$id.log 2>&1; rc=$?
  echo "$id exit=$rc $(grep -c '^VIOLATION' /tmp/try_seed_$id.log) violation lines; first: $(grep -A1 '^VIOLATION' /tmp/try_seed_$id.log | sed -n 2p | cut -c1-200)"
  # the evidence written while the seeded change was applied must not replace the evidence of the real tree
  cp /tmp/try_seed_evidence_$id.json evidence/$id.json 2>/dev/null
done
git -C /repo checkout -- .
