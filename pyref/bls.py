# From-scratch BLS12-381 (prototype): Fp, Fp2, Fp12 (poly), G1/G2, compression, pairing (py_ecc-style ate loop, naive final exp)
P = 0x1a0111ea397fe69a4b1ba7b6434bacd764774b84f38512bf6730d2a0f6b0f6241eabfffeb153ffffb9feffffffffaaab
R = 0x73eda753299d7d483339d80809a1d80553bda402fffe5bfeffffffff00000001
def inv(a, n=P): return pow(a, -1, n)

class Fq2:
    __slots__ = ("a", "b")
    def __init__(s, a, b=0): s.a = a % P; s.b = b % P
    def __add__(s, o): return Fq2(s.a + o.a, s.b + o.b)
    def __sub__(s, o): return Fq2(s.a - o.a, s.b - o.b)
    def __neg__(s): return Fq2(-s.a, -s.b)
    def __mul__(s, o):
        if isinstance(o, int): return Fq2(s.a * o, s.b * o)
        return Fq2(s.a * o.a - s.b * o.b, s.a * o.b + s.b * o.a)
    def __eq__(s, o): return s.a == o.a and s.b == o.b
    def inv(s): d = inv(s.a * s.a + s.b * s.b); return Fq2(s.a * d, -s.b * d)
    def is_zero(s): return s.a == 0 and s.b == 0
    def __pow__(s, e):
        r = Fq2(1); b = s
        while e: 
            if e & 1: r = r * b
            b = b * b; e >>= 1
        return r
    def sqrt(s):
        # p^2 = 9 mod 16 ; use generic: candidate = s^((p^2+7)/16) times roots of unity
        if s.is_zero(): return s
        c = s ** ((P * P + 7) // 16)
        # eighth roots of unity
        for r in ROOTS8:
            x = c * r
            if x * x == s: return x
        return None
ROOTS8 = None
def _init_roots():
    global ROOTS8
    # find primitive 8th roots: g^((p^2-1)/8) for some non-residue-ish g
    out = []
    g = Fq2(1, 1)
    w = g ** ((P * P - 1) // 8)
    x = Fq2(1)
    for _ in range(8): out.append(x); x = x * w
    ROOTS8 = out
_init_roots()

B1 = 4
B2 = Fq2(4, 4)
G1 = (0x17f1d3a73197d7942695638c4fa9ac0fc3688c4f9774b905a14e3a3f171bac586c55e83ff97a1aeffb3af00adb22c6bb,
      0x08b3f481e3aaa0f1a09e30ed741d8ae4fcf5e095d5d00af600db18cb2c04b3edd03cc744a2888ae40caa232946c5e7e1)
G2 = (Fq2(0x024aa2b2f08f0a91260805272dc51051c6e47ad4fa403b02b4510b647ae3d1770bac0326a805bbefd48056c8c121bdb8,
          0x13e02b6052719f607dacd3a088274f65596bd0d09920b61ab5da61bbdc7f5049334cf11213945d57e5ac7d055d042b7e),
      Fq2(0x0ce5d527727d6e118cc9cdc6da2e351aadfd9baa8cbdd3a76d429a695160d12c923ac9cc3baca289e193548608b82801,
          0x0606c4a02ea734cc32acd2b02bc28b99cb3e287e85a763af267492ab572e99ab3f370d275cec1da1aaa9075ff05f79be))

# generic affine curve ops over a field given by (add, ...) -- use python duck typing: ints mod P wrapped
class Fq:
    __slots__ = ("v",)
    def __init__(s, v): s.v = v % P
    def __add__(s, o): return Fq(s.v + o.v)
    def __sub__(s, o): return Fq(s.v - o.v)
    def __neg__(s): return Fq(-s.v)
    def __mul__(s, o): return Fq(s.v * (o if isinstance(o, int) else o.v))
    def __eq__(s, o): return s.v == o.v
    def inv(s): return Fq(inv(s.v))
    def is_zero(s): return s.v == 0

def ec_double(p):
    if p is None: return None
    x, y = p
    if y.is_zero(): return None
    l = (x * x * 3) * (y * 2).inv()
    nx = l * l - x - x
    return (nx, l * (x - nx) - y)
def ec_add(p, q):
    if p is None: return q
    if q is None: return p
    (x1, y1), (x2, y2) = p, q
    if x1 == x2:
        if y1 == y2: return ec_double(p)
        return None
    l = (y2 - y1) * (x2 - x1).inv()
    nx = l * l - x1 - x2
    return (nx, l * (x1 - nx) - y1)
def ec_neg(p): return None if p is None else (p[0], -p[1])
def ec_mul(p, k):
    if k < 0: return ec_mul(ec_neg(p), -k)
    r = None
    while k:
        if k & 1: r = ec_add(r, p)
        p = ec_double(p); k >>= 1
    return r
def on_curve1(p): return p is None or p[1] * p[1] == p[0] * p[0] * p[0] + Fq(B1)
def on_curve2(p): return p is None or p[1] * p[1] == p[0] * p[0] * p[0] + B2
g1 = (Fq(G1[0]), Fq(G1[1])); g2 = G2

def compress1(p):
    if p is None: return bytes([0xc0] + [0] * 47)
    x, y = p[0].v, p[1].v
    flag = 0x80 | (0x20 if y > (P - y) % P else 0)
    b = bytearray(x.to_bytes(48, "big")); b[0] |= flag; return bytes(b)
def decompress1(b):
    if len(b) != 48: return "len"
    c, i, s = b[0] >> 7, (b[0] >> 6) & 1, (b[0] >> 5) & 1
    if not c: return "uncompressed"
    x = int.from_bytes(bytes([b[0] & 0x1f]) + b[1:], "big")
    if i:
        if x != 0 or s: return "bad inf"
        return None
    if x >= P: return "x>=p"
    y2 = (x * x * x + B1) % P
    y = pow(y2, (P + 1) // 4, P)
    if y * y % P != y2: return "not on curve"
    if (y > (P - y) % P) != bool(s): y = (P - y) % P
    pt = (Fq(x), Fq(y))
    if ec_mul(pt, R) is not None: return "not in subgroup"
    return pt
def compress2(p):
    if p is None: return bytes([0xc0] + [0] * 95)
    x, y = p
    ny = -y
    big = (y.b, y.a) > (ny.b, ny.a)
    b = bytearray(x.b.to_bytes(48, "big") + x.a.to_bytes(48, "big")); b[0] |= 0x80 | (0x20 if big else 0); return bytes(b)
def decompress2(b):
    if len(b) != 96: return "len"
    c, i, s = b[0] >> 7, (b[0] >> 6) & 1, (b[0] >> 5) & 1
    if not c: return "uncompressed"
    x1 = int.from_bytes(bytes([b[0] & 0x1f]) + b[1:48], "big"); x0 = int.from_bytes(b[48:], "big")
    if i:
        if x0 or x1 or s: return "bad inf"
        return None
    if x0 >= P or x1 >= P: return "x>=p"
    x = Fq2(x0, x1)
    y = (x * x * x + B2).sqrt()
    if y is None: return "not on curve"
    ny = -y
    if ((y.b, y.a) > (ny.b, ny.a)) != bool(s): y = ny
    pt = (x, y)
    if ec_mul(pt, R) is not None: return "not in subgroup"
    return pt

# ---- Fq12 as polynomials mod w^12 - 2w^6 + 2 (py_ecc construction)
MODC = [2, 0, 0, 0, 0, 0, -2, 0, 0, 0, 0, 0]
class Fq12:
    __slots__ = ("c",)
    def __init__(s, c): s.c = [x % P for x in c]
    @staticmethod
    def one(): return Fq12([1] + [0] * 11)
    def __add__(s, o): return Fq12([a + b for a, b in zip(s.c, o.c)])
    def __sub__(s, o): return Fq12([a - b for a, b in zip(s.c, o.c)])
    def __neg__(s): return Fq12([-a for a in s.c])
    def __eq__(s, o): return s.c == o.c
    def is_zero(s): return all(x == 0 for x in s.c)
    def __mul__(s, o):
        if isinstance(o, int): return Fq12([a * o for a in s.c])
        b = [0] * 23
        for i, x in enumerate(s.c):
            if x:
                for j, y in enumerate(o.c): b[i + j] += x * y
        for exp in range(22, 11, -1):
            top = b[exp]
            if top:
                b[exp] = 0
                b[exp - 6] += 2 * top     # w^12 = 2 w^6 - 2
                b[exp - 12] -= 2 * top
        return Fq12(b[:12])
    def __pow__(s, e):
        r = Fq12.one(); b = s
        while e:
            if e & 1: r = r * b
            b = b * b; e >>= 1
        return r
    def inv(s):
        # extended euclid on polynomials
        lm, hm = [1] + [0] * 12, [0] * 13
        low, high = s.c + [0], [x % P for x in MODC] + [1]
        def deg(p):
            d = len(p) - 1
            while d and p[d] == 0: d -= 1
            return d
        def poly_rounded_div(a, b):
            dega, degb = deg(a), deg(b)
            temp = list(a); o = [0] * len(a)
            for i in range(dega - degb, -1, -1):
                o[i] = (o[i] + temp[degb + i] * inv(b[degb])) % P
                for c in range(degb + 1): temp[c + i] = (temp[c + i] - o[c]) % P if False else (temp[c + i] - o[i] * b[c]) % P
            return o[: deg(o) + 1]
        while deg(low):
            r = poly_rounded_div(high, low); r += [0] * (13 - len(r))
            nm, new = list(hm), list(high)
            for i in range(13):
                for j in range(13 - i):
                    nm[i + j] -= lm[i] * r[j]; new[i + j] -= low[i] * r[j]
            nm = [x % P for x in nm]; new = [x % P for x in new]
            lm, low, hm, high = nm, new, lm, low
        return Fq12(lm[:12]) * inv(low[0])
W = Fq12([0, 1] + [0] * 10)
def twist(pt):
    if pt is None: return None
    x, y = pt
    xc = [x.a - x.b, x.b]; yc = [y.a - y.b, y.b]
    nx = Fq12([xc[0]] + [0] * 5 + [xc[1]] + [0] * 5); ny = Fq12([yc[0]] + [0] * 5 + [yc[1]] + [0] * 5)
    return (nx * (W ** 2).inv(), ny * (W ** 3).inv())
def cast12(pt):
    if pt is None: return None
    return (Fq12([pt[0].v] + [0] * 11), Fq12([pt[1].v] + [0] * 11))
def linefunc(P1, P2, T):
    x1, y1 = P1; x2, y2 = P2; xt, yt = T
    if not (x1 == x2):
        m = (y2 - y1) * (x2 - x1).inv(); return m * (xt - x1) - (yt - y1)
    elif y1 == y2:
        m = (x1 * x1 * 3) * (y1 * 2).inv(); return m * (xt - x1) - (yt - y1)
    else: return xt - x1
ATE = 15132376222941642752
def miller(Q, Pp):
    if Q is None or Pp is None: return Fq12.one()
    Rr = Q; f = Fq12.one()
    for i in range(62, -1, -1):
        f = f * f * linefunc(Rr, Rr, Pp); Rr = ec_double(Rr)
        if ATE & (1 << i): f = f * linefunc(Rr, Q, Pp); Rr = ec_add(Rr, Q)
    return f
def final_exp(f): return f ** ((P ** 12 - 1) // R)
def pairing(Q, Pp): return final_exp(miller(twist(Q), cast12(Pp)))
def pairing_product_is_one(pairs):
    f = Fq12.one()
    for Pp, Q in pairs: f = f * miller(twist(Q), cast12(Pp))
    return final_exp(f) == Fq12.one()

if __name__ == "__main__":
    import time
    assert on_curve1(g1) and on_curve2(g2)
    assert ec_mul(g1, R) is None and ec_mul(g2, R) is None
    print("G1 gen", compress1(g1).hex())
    print("G2 gen", compress2(g2).hex())
    assert decompress1(compress1(ec_mul(g1, 5))) == ec_mul(g1, 5)
    assert decompress2(compress2(ec_mul(g2, 7))) == ec_mul(g2, 7)
    t = time.time()
    e1 = pairing(g2, g1); print("pairing s", time.time() - t)
    e2 = pairing(ec_mul(g2, 3), ec_mul(g1, 5))
    assert e2 == e1 ** 15, "bilinearity"
    assert not (e1 == Fq12.one())
    assert pairing_product_is_one([(ec_mul(g1, 6), g2), (ec_neg(g1), ec_mul(g2, 6))])
    print("ok")
