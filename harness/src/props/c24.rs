// C24 — interning preserves the tree and deduplicates maximally.
use crate::common::*;
use crate::domains::*;
use crate::refsha;
use crate::tree::{self, Builder, ENCS4, SHARINGS, T, TreeSpace};
use clvmr::allocator::Allocator;
use clvmr::error::EvalErr;
use clvmr::serde::{intern_tree, intern_tree_limited, node_to_bytes};
use serde_json::json;
use std::collections::HashSet;

fn distinct(t: &T, atoms: &mut HashSet<Vec<u8>>, pairs: &mut HashSet<Vec<u8>>) {
    match t {
        T::A(b) => {
            atoms.insert(b.to_vec());
        }
        T::P(l, r) => {
            pairs.insert(t.ser());
            distinct(l, atoms, pairs);
            distinct(r, atoms, pairs);
        }
    }
}

pub fn run(ctx: &Ctx) -> Report {
    let mut rep = Report::new("C24", "exploration");
    let seed = ctx.seed;
    let spaces = vec![TreeSpace::new(ctx.pick(5, 6), &atoms_t(&a4())), TreeSpace::new(ctx.pick(4, 5), &atoms_t(&a6())),
        TreeSpace::new(ctx.pick(3, 4), &atoms_t(&[vec![], vec![0x41; 40], vec![0x00, 0x01], vec![0x04, 0, 0, 0], vec![0x03, 0xff, 0xff, 0xff]])),
        // integer aliases: different byte strings that denote the same integer (nil/00/0000, 01/0001, ff/ffff) must stay distinct atoms
        TreeSpace::new(ctx.pick(3, 4), &atoms_t(&[vec![], vec![0x00], vec![0x00, 0x00], vec![0x01], vec![0x00, 0x01], vec![0xff], vec![0xff, 0xff]]))];
    for (si, ts) in spaces.iter().enumerate() {
        let acc = par_for(ctx, ts.total, 64, |i| format!("space{si} tree#{i}"), |i, acc| {
            thread_local! { static A: std::cell::RefCell<Allocator> = std::cell::RefCell::new(Allocator::new()); }
            let t = ts.get(i);
            let ser = t.ser();
            let (mut da, mut dp) = (HashSet::new(), HashSet::new());
            distinct(&t, &mut da, &mut dp);
            let (src_atoms, src_pairs) = t.count_nodes();
            let rh = refsha::tree_hash(&t);
            A.with(|a| {
                let a = &mut a.borrow_mut();
                for sh in SHARINGS {
                    for enc in ENCS4 {
                        let cp = a.checkpoint();
                        let n = Builder::new(sh, enc).build(a, &t);
                        let canon = format!("tree {} sharing={sh:?} enc={enc:?}", hx(&ser));
                        acc.inc("cases");
                        match intern_tree(a, n) {
                            Err(e) => acc.violation(canon.clone(), format!("intern_tree failed: {e}")),
                            Ok(it) => {
                                match node_to_bytes(&it.allocator, it.root) {
                                    Ok(b) if b == ser => {}
                                    o => acc.violation(canon.clone(), format!("serialization differs: {:?}", o.map(|b| hx(&b)))),
                                }
                                if it.tree_hash() != rh {
                                    acc.violation(canon.clone(), "tree hash differs from the recursive definition".into());
                                }
                                let ab: Vec<Vec<u8>> = it.atoms.iter().map(|n| it.allocator.atom(*n).as_ref().to_vec()).collect();
                                let aset: HashSet<&Vec<u8>> = ab.iter().collect();
                                if aset.len() != ab.len() {
                                    acc.violation(canon.clone(), "interned atoms are not pairwise distinct".into());
                                }
                                if ab.len() != da.len() || ab.iter().any(|b| !da.contains(b)) {
                                    acc.violation(canon.clone(), format!("interned atoms {} != distinct atom values {}", ab.len(), da.len()));
                                }
                                let mut lr = HashSet::new();
                                let mut sub = HashSet::new();
                                for p in &it.pairs {
                                    match it.allocator.sexp(*p) {
                                        clvmr::allocator::SExp::Pair(l, r) => {
                                            lr.insert((l, r));
                                        }
                                        _ => acc.violation(canon.clone(), "pairs list contains an atom".into()),
                                    }
                                    sub.insert(tree::read_ser(&it.allocator, *p));
                                }
                                if lr.len() != it.pairs.len() || sub.len() != it.pairs.len() {
                                    acc.violation(canon.clone(), "interned pairs are not pairwise distinct".into());
                                }
                                if sub != dp {
                                    acc.violation(canon.clone(), format!("interned pairs {} != distinct sub-trees {}", it.pairs.len(), dp.len()));
                                }
                                if it.atoms.len() as u64 > src_atoms || it.pairs.len() as u64 > src_pairs {
                                    acc.violation(canon.clone(), "interned tree has more nodes than the source".into());
                                }
                                if (it.atoms.len() as u64) < src_atoms || (it.pairs.len() as u64) < src_pairs {
                                    acc.inc("deduplicated");
                                }
                                // heap limit sweep (only in the default representation to bound work)
                                if enc == crate::tree::Enc::Inline && sh == crate::tree::Sharing::Fresh {
                                    let need = it.allocator.heap_size();
                                    for l in 0..=need + 1 {
                                        acc.inc("limit_cases");
                                        match intern_tree_limited(a, n, l) {
                                            Ok(_) if l >= need => {}
                                            Err(EvalErr::OutOfMemory) if l < need => {}
                                            o => acc.violation(format!("{canon} heap_limit={l}"), format!("need {need}: {:?}", o.map(|_| "ok"))),
                                        }
                                    }
                                }
                            }
                        }
                        a.restore_checkpoint(&cp);
                    }
                }
            });
            acc.maybe_sample(sample_key(seed, i), || json!({"tree": hx(&ser), "distinct_atoms": da.len(), "distinct_pairs": dp.len()}));
        });
        rep.absorb(acc);
    }
    rep.evaluations = rep.acc.get("cases") + rep.acc.get("limit_cases");
    rep.nontrivial = rep.acc.get("deduplicated");
    rep.states = rep.acc.get("cases");
    rep.transitions = rep.evaluations;
    rep.traces = rep.acc.get("cases");
    rep.rule = format!("every tree of TREES({},A4), TREES({},A6) , TREES({}, boundary atoms incl. non-canonical and 2^26) and TREES(3|4, integer aliases nil/00/0000, 01/0001, ff/ffff) in 3 sharing modes x 4 atom representations (inline, heap, view, and mixed within one tree); oracle: same serialization, same tree hash (independent SHA-256), atoms pairwise byte-distinct and equal to the set of distinct atom values, pairs pairwise distinct as (left,right) and as sub-trees and equal to the set of distinct sub-trees, counts <= source; intern_tree_limited for every heap limit 0..=need+1. Non-trivial = cases where interning actually merged nodes.", ctx.pick(5, 6), ctx.pick(4, 5), ctx.pick(3, 4));
    rep
}
