// Independent SHA-256 (constants derived at start-up from the fractional parts
// of square/cube roots of the first primes) and Keccak-256 (round constants
// from the LFSR, rotation offsets from the (t+1)(t+2)/2 walk).
use std::sync::OnceLock;

fn primes(n: usize) -> Vec<u64> {
    let mut v = vec![];
    let mut c = 2u64;
    while v.len() < n {
        if v.iter().all(|p| c % p != 0) {
            v.push(c);
        }
        c += 1;
    }
    v
}

// floor(frac(p^(1/k)) * 2^32) by integer root of p << (32*k)
fn iroot(n: u128, k: u32) -> u128 {
    let mut lo: u128 = 0;
    let mut hi: u128 = 1 << 43;
    while lo < hi {
        let mid = (lo + hi + 1) / 2;
        let mut p: u128 = 1;
        let mut over = false;
        for _ in 0..k {
            match p.checked_mul(mid) {
                Some(x) => p = x,
                None => {
                    over = true;
                    break;
                }
            }
        }
        if !over && p <= n {
            lo = mid;
        } else {
            hi = mid - 1;
        }
    }
    lo
}

struct Consts {
    k: [u32; 64],
    h: [u32; 8],
}
fn consts() -> &'static Consts {
    static C: OnceLock<Consts> = OnceLock::new();
    C.get_or_init(|| {
        let ps = primes(64);
        let mut k = [0u32; 64];
        let mut h = [0u32; 8];
        for i in 0..64 {
            // cube root of p * 2^96 -> integer part has 32 fractional bits
            let r = iroot((ps[i] as u128) << 96, 3);
            k[i] = (r & 0xffff_ffff) as u32;
        }
        for i in 0..8 {
            let r = iroot((ps[i] as u128) << 64, 2);
            h[i] = (r & 0xffff_ffff) as u32;
        }
        Consts { k, h }
    })
}

pub fn sha256(data: &[u8]) -> [u8; 32] {
    let c = consts();
    let mut h = c.h;
    let mut msg = data.to_vec();
    let bitlen = (data.len() as u64) * 8;
    msg.push(0x80);
    while msg.len() % 64 != 56 {
        msg.push(0);
    }
    msg.extend_from_slice(&bitlen.to_be_bytes());
    for block in msg.chunks(64) {
        let mut w = [0u32; 64];
        for i in 0..16 {
            w[i] = u32::from_be_bytes(block[i * 4..i * 4 + 4].try_into().unwrap());
        }
        for i in 16..64 {
            let s0 = w[i - 15].rotate_right(7) ^ w[i - 15].rotate_right(18) ^ (w[i - 15] >> 3);
            let s1 = w[i - 2].rotate_right(17) ^ w[i - 2].rotate_right(19) ^ (w[i - 2] >> 10);
            w[i] = w[i - 16]
                .wrapping_add(s0)
                .wrapping_add(w[i - 7])
                .wrapping_add(s1);
        }
        let mut v = h;
        for i in 0..64 {
            let s1 = v[4].rotate_right(6) ^ v[4].rotate_right(11) ^ v[4].rotate_right(25);
            let ch = (v[4] & v[5]) ^ (!v[4] & v[6]);
            let t1 = v[7]
                .wrapping_add(s1)
                .wrapping_add(ch)
                .wrapping_add(c.k[i])
                .wrapping_add(w[i]);
            let s0 = v[0].rotate_right(2) ^ v[0].rotate_right(13) ^ v[0].rotate_right(22);
            let maj = (v[0] & v[1]) ^ (v[0] & v[2]) ^ (v[1] & v[2]);
            let t2 = s0.wrapping_add(maj);
            v[7] = v[6];
            v[6] = v[5];
            v[5] = v[4];
            v[4] = v[3].wrapping_add(t1);
            v[3] = v[2];
            v[2] = v[1];
            v[1] = v[0];
            v[0] = t1.wrapping_add(t2);
        }
        for i in 0..8 {
            h[i] = h[i].wrapping_add(v[i]);
        }
    }
    let mut out = [0u8; 32];
    for i in 0..8 {
        out[i * 4..i * 4 + 4].copy_from_slice(&h[i].to_be_bytes());
    }
    out
}

pub fn keccak256(data: &[u8]) -> [u8; 32] {
    // round constants via LFSR x^8+x^6+x^5+x^4+1
    let mut rc = [0u64; 24];
    let mut r: u8 = 1;
    for item in rc.iter_mut() {
        for j in 0..7 {
            let bit = r & 1;
            // advance lfsr
            let hi = r & 0x80;
            r <<= 1;
            if hi != 0 {
                r ^= 0x71;
            }
            if bit != 0 {
                *item ^= 1u64 << ((1u32 << j) - 1);
            }
        }
    }
    let mut rot = [[0u32; 5]; 5];
    {
        let (mut x, mut y) = (1usize, 0usize);
        for t in 0..24u32 {
            rot[x][y] = ((t + 1) * (t + 2) / 2) % 64;
            let nx = y;
            let ny = (2 * x + 3 * y) % 5;
            x = nx;
            y = ny;
        }
    }
    let rate = 136;
    let mut st = [[0u64; 5]; 5]; // st[x][y]
    let mut msg = data.to_vec();
    msg.push(0x01);
    while msg.len() % rate != 0 {
        msg.push(0);
    }
    let l = msg.len();
    msg[l - 1] |= 0x80;
    for block in msg.chunks(rate) {
        for i in 0..rate / 8 {
            let lane = u64::from_le_bytes(block[i * 8..i * 8 + 8].try_into().unwrap());
            st[i % 5][i / 5] ^= lane;
        }
        for round in 0..24 {
            let mut c = [0u64; 5];
            for x in 0..5 {
                c[x] = st[x][0] ^ st[x][1] ^ st[x][2] ^ st[x][3] ^ st[x][4];
            }
            for x in 0..5 {
                let d = c[(x + 4) % 5] ^ c[(x + 1) % 5].rotate_left(1);
                for y in 0..5 {
                    st[x][y] ^= d;
                }
            }
            let mut b = [[0u64; 5]; 5];
            for x in 0..5 {
                for y in 0..5 {
                    b[y][(2 * x + 3 * y) % 5] = st[x][y].rotate_left(rot[x][y]);
                }
            }
            for x in 0..5 {
                for y in 0..5 {
                    st[x][y] = b[x][y] ^ (!b[(x + 1) % 5][y] & b[(x + 2) % 5][y]);
                }
            }
            st[0][0] ^= rc[round];
        }
    }
    let mut out = [0u8; 32];
    for i in 0..4 {
        out[i * 8..i * 8 + 8].copy_from_slice(&st[i % 5][i / 5].to_le_bytes());
    }
    out
}

pub fn self_test() -> Result<(), String> {
    let e = sha256(b"");
    if hex::encode(e) != "e3b0c44298fc1c149afbf4c8996fb92427ae41e4649b934ca495991b7852b855" {
        return Err(format!("sha256('') = {}", hex::encode(e)));
    }
    let a = sha256(b"abc");
    if hex::encode(a) != "ba7816bf8f01cfea414140de5dae2223b00361a396177a9cb410ff61f20015ad" {
        return Err(format!("sha256('abc') = {}", hex::encode(a)));
    }
    let k = keccak256(b"");
    if hex::encode(k) != "c5d2460186f7233c927e7db2dcc703c0e500b653ca82273b7bfad8045d85a470" {
        return Err(format!("keccak256('') = {}", hex::encode(k)));
    }
    Ok(())
}

use crate::tree::T;
pub fn tree_hash(t: &T) -> [u8; 32] {
    enum Op<'a> {
        V(&'a T),
        C,
    }
    let mut ops = vec![Op::V(t)];
    let mut vals: Vec<[u8; 32]> = vec![];
    while let Some(op) = ops.pop() {
        match op {
            Op::V(T::A(b)) => {
                let mut d = vec![1u8];
                d.extend_from_slice(b);
                vals.push(sha256(&d));
            }
            Op::V(T::P(l, r)) => {
                ops.push(Op::C);
                ops.push(Op::V(r));
                ops.push(Op::V(l));
            }
            Op::C => {
                let r = vals.pop().unwrap();
                let l = vals.pop().unwrap();
                let mut d = vec![2u8];
                d.extend_from_slice(&l);
                d.extend_from_slice(&r);
                vals.push(sha256(&d));
            }
        }
    }
    vals.pop().unwrap()
}
