// C18 — back-reference decoders agree with each other and with the length probe.
use crate::common::*;
use crate::domains::*;
use crate::refserde;
use crate::tree::{self, Shape, shapes};
use clvmr::allocator::Allocator;
use clvmr::serde::{node_from_bytes_backrefs, node_from_bytes_backrefs_old, serialized_length_from_bytes};
use serde_json::json;

pub fn check_input(s: &[u8], acc: &mut Acc, check_prefix: bool) {
    let canon = || format!("bytes {}", hx(s));
    let reference = refserde::deser_backrefs(s);
    let mut a1 = Allocator::new_limited(1 << 24);
    let mut a2 = Allocator::new_limited(1 << 24);
    let p0 = a1.pair_count();
    let r1 = node_from_bytes_backrefs(&mut a1, s);
    let r2 = node_from_bytes_backrefs_old(&mut a2, s);
    let r3 = serialized_length_from_bytes(s);
    match (&reference, &r1, &r2, &r3) {
        (None, Err(_), Err(_), Err(_)) => acc.inc("rejected_by_all"),
        (Some(d), Ok(n1), Ok(n2), Ok(len)) => {
            acc.inc("accepted_by_all");
            if d.backrefs > 0 {
                acc.inc("accepted_with_backrefs");
            }
            let t1 = tree::read(&a1, *n1);
            let t2 = tree::read(&a2, *n2);
            if t1 != t2 {
                acc.violation(canon(), format!("trees differ: new {} legacy {}", t1.hex(), t2.hex()));
            }
            if t1 != d.tree {
                acc.violation(canon(), format!("tree {} != reference {}", t1.hex(), d.tree.hex()));
            }
            let (pc1, pc2) = (a1.pair_count() - p0, a2.pair_count() - p0);
            if pc1 != pc2 {
                acc.violation(canon(), format!("pair_count differs: new {pc1} legacy {pc2}"));
            }
            if pc2 as u64 != d.legacy_pairs {
                acc.violation(canon(), format!("pair_count {pc2} != model {}", d.legacy_pairs));
            }
            if *len != d.consumed as u64 {
                acc.violation(canon(), format!("serialized_length_from_bytes {len} != consumed {}", d.consumed));
            }
            if check_prefix && d.consumed <= s.len() {
                // consumed = shortest accepted prefix (sequential reader, no look-ahead)
                let p = &s[..d.consumed];
                let mut b1 = Allocator::new_limited(1 << 24);
                let mut b2 = Allocator::new_limited(1 << 24);
                if node_from_bytes_backrefs(&mut b1, p).is_err() || node_from_bytes_backrefs_old(&mut b2, p).is_err() {
                    acc.violation(canon(), format!("a decoder rejects the {}-byte prefix the reference consumed", d.consumed));
                }
                if d.consumed > 0 {
                    let q = &s[..d.consumed - 1];
                    if node_from_bytes_backrefs(&mut b1, q).is_ok() || node_from_bytes_backrefs_old(&mut b2, q).is_ok() {
                        acc.violation(canon(), "a decoder accepts a prefix shorter than the consumed length".into());
                    }
                }
            }
            acc.outcome(fnv(&t1.ser()));
        }
        _ => acc.violation(
            canon(),
            format!(
                "acceptance differs: reference {:?}, new {:?}, legacy {:?}, length probe {:?}",
                reference.as_ref().map(|d| d.consumed),
                r1.as_ref().map(|_| ()).map_err(|e| e.to_string()),
                r2.as_ref().map(|_| ()).map_err(|e| e.to_string()),
                r3.as_ref().map_err(|e| e.to_string())
            ),
        ),
    }
}

fn leaf_tokens(reduced: bool) -> Vec<Vec<u8>> {
    let mut v: Vec<Vec<u8>> = vec![vec![0x80], vec![0x84, b'a', b'b', b'c', b'd']];
    if !reduced {
        v.push(vec![0x01]);
    }
    let paths: Vec<u8> = if reduced { (1..=11).collect() } else { (0..=31).collect() };
    for p in paths {
        v.push(vec![0xfe, p]);
    }
    if !reduced {
        v.push(vec![0xfe, 0x82, 0x00, 0x02]); // leading-zero path
        v.push(vec![0xfe, 0x81, 0x80]); // path 0x80
        v.push(vec![0xfe, 0x82, 0x80, 0x01]);
        v.push(vec![0xfe, 0x80]); // empty path
        v.push(vec![0xfe, 0x82, 0x01, 0x00]);
        v.push(vec![0xfe, 0x81, 0x01]); // non-canonical encoding of path 1
    }
    v
}

fn emit(shape: &Shape, leaves: &[&Vec<u8>], idx: &mut usize, out: &mut Vec<u8>) {
    match shape {
        Shape::L => {
            out.extend_from_slice(leaves[*idx]);
            *idx += 1;
        }
        Shape::N(a, b) => {
            out.push(0xff);
            emit(a, leaves, idx, out);
            emit(b, leaves, idx, out);
        }
    }
}

pub fn run(ctx: &Ctx) -> Report {
    let mut rep = Report::new("C18", "model_checking");
    let seed = ctx.seed;
    let all = all_bytes();
    // 1. BYTES(2|3)
    let l1 = ctx.pick(2, 3);
    let n1 = count_bytes_upto(256, l1);
    let acc = par_for(ctx, n1, 1 << 12, |i| format!("BYTES#{i}"), |i, acc| {
        let mut s = Vec::new();
        nth_bytes_upto(&all, l1, i, &mut s);
        check_input(&s, acc, false);
    });
    rep.evaluations += n1;
    rep.absorb(acc);
    // 2. BYTES(n, 12-byte alphabet)
    let alpha: [u8; 12] = [0xff, 0xfe, 0x00, 0x01, 0x02, 0x03, 0x04, 0x05, 0x06, 0x07, 0x80, 0x81];
    let l2 = ctx.pick(6, 8);
    let n2 = count_bytes_upto(12, l2);
    let acc = par_for(ctx, n2, 1 << 12, |i| format!("A12#{i}"), |i, acc| {
        let mut s = Vec::new();
        nth_bytes_upto(&alpha, l2, i, &mut s);
        check_input(&s, acc, false);
        acc.maybe_sample(sample_key(seed, i), || json!({"bytes": hx(&s)}));
    });
    rep.evaluations += n2;
    rep.absorb(acc);
    // 3. structured token sequences: every tree shape with <= L leaves, every leaf token
    let plans: Vec<(usize, bool)> = if ctx.quick() { vec![(4, false), (5, true)] } else { vec![(5, false), (6, true)] };
    for (maxl, reduced) in plans {
        let toks = leaf_tokens(reduced);
        let k = toks.len() as u64;
        for nl in 1..=maxl {
            if !reduced && nl > maxl {
                continue;
            }
            if reduced && nl < maxl {
                continue; // smaller sizes are covered by the full alphabet plan
            }
            let shp = shapes(nl);
            let per = k.pow(nl as u32);
            let total = shp.len() as u64 * per;
            let acc = par_for(ctx, total, 1 << 10, |i| format!("tokens leaves={nl} reduced={reduced} #{i}"), |i, acc| {
                let s = &shp[(i / per) as usize];
                let mut d = i % per;
                let mut leaves: Vec<&Vec<u8>> = vec![&toks[0]; nl];
                for j in (0..nl).rev() {
                    leaves[j] = &toks[(d % k) as usize];
                    d /= k;
                }
                let mut out = vec![];
                let mut idx = 0;
                emit(s, &leaves, &mut idx, &mut out);
                check_input(&out, acc, true);
                acc.inc("token_sequences");
                acc.maybe_sample(sample_key(seed, i) | (1 << 63), || json!({"token_sequence": hx(&out)}));
            });
            rep.evaluations += total;
            rep.absorb(acc);
        }
    }
    // 4. deep-stack family: a list of n atoms whose terminator is a back-reference with EVERY path
    //    below 2^bits, in minimal form and padded with 1 or 2 leading zero bytes
    for (n, bits) in [(3usize, 8u32), (9, 12), (12, ctx.pick(13, 16)), (17, ctx.pick(13, 18))] {
        let total = (1u64 << bits) * 3;
        let acc = par_for(ctx, total, 1 << 8, |i| format!("deep n={n} #{i}"), |i, acc| {
            let p = i / 3;
            let pad = (i % 3) as usize;
            let mut s = vec![];
            for k in 0..n {
                s.push(0xff);
                s.push(1 + k as u8);
            }
            s.push(0xfe);
            // path bytes
            let mut pb: Vec<u8> = if p == 0 { vec![] } else { let nb = (64 - p.leading_zeros() as usize + 7) / 8; (0..nb).rev().map(|j| (p >> (8 * j)) as u8).collect() };
            for _ in 0..pad {
                pb.insert(0, 0);
            }
            crate::tree::ser_atom(&pb, &mut s);
            check_input(&s, acc, false);
            acc.inc("deep_stack_cases");
        });
        rep.evaluations += total;
        rep.absorb(acc);
    }
    rep.nontrivial = rep.acc.get("accepted_with_backrefs");
    rep.states = rep.evaluations;
    rep.transitions = rep.evaluations * 3;
    rep.traces = rep.evaluations;
    rep.rule = format!("BYTES({l1}); BYTES({l2}, {{ff fe 00..07 80 81}}); every well-formed token tree with up to {} leaves over {{nil, 'abcd', 01, back-reference with every path 0..31 and leading-zero/0x80/empty/2-byte/non-canonical paths}} (and one more leaf over a reduced alphabet). Each input through node_from_bytes_backrefs, node_from_bytes_backrefs_old, serialized_length_from_bytes and an independent decoder written from docs/compressed-serialization.md: same acceptance, same tree, same pair_count (== model), length probe == consumed; for token sequences consumed is also checked as the shortest accepted prefix. Non-trivial = accepted inputs that contain at least one back-reference.", ctx.pick(4, 5));
    rep.assumptions.push("reference back-reference decoder in harness/src/refserde.rs".into());
    rep.assumptions.push("the byte-string spaces are prefix-closed, so equal acceptance on every string implies equal consumed length for a sequential reader; the decoders' cursor itself is not exposed by the public byte-slice API".into());
    rep
}
