// C03 — evaluation is independent of heap history and atom representation.
use crate::common::*;
use crate::domains::*;
use crate::progspace::*;
use crate::tree::{Builder, ENCS4, Enc, Sharing, T, atom, cons, list, nil, quote};
use clvmr::allocator::{Allocator, NodePtr};
use clvmr::chia_dialect::{ChiaDialect, ClvmFlags};
use serde_json::json;

const CEILING: u64 = 1 << 34;

/// prior-history alphabet
#[derive(Clone, Copy, Debug, PartialEq)]
pub enum H {
    JunkAtoms,
    JunkPairs,
    RunOk,
    RunFail,
    BlsOk,
    BlsValidateThenFail,
    SubjectItself,
    CheckpointRestore,
    FailedAlloc,
}
pub const HS: [H; 9] = [H::JunkAtoms, H::JunkPairs, H::RunOk, H::RunFail, H::BlsOk, H::BlsValidateThenFail, H::SubjectItself, H::CheckpointRestore, H::FailedAlloc];

fn build(a: &mut Allocator, t: &T) -> NodePtr {
    Builder::new(Sharing::Fresh, Enc::Inline).build(a, t)
}

fn apply_history(a: &mut Allocator, h: H, subject: (&T, &T), flags: ClvmFlags) {
    let d = ChiaDialect::new(flags);
    match h {
        H::JunkAtoms => {
            a.new_atom(b"junk-atom-1").unwrap();
            a.new_atom(&[0x05]).unwrap();
            a.new_atom(&big_atom(300)).unwrap();
        }
        H::JunkPairs => {
            let x = a.new_atom(b"pairjunk").unwrap();
            let p = a.new_pair(x, NodePtr::NIL).unwrap();
            let q = a.new_pair(p, p).unwrap();
            a.new_pair(q, x).unwrap();
        }
        H::RunOk => {
            let p = build(a, &parse_prog("(c (concat (q . \"ab\") (q . \"cd\")) (+ (q . 1) (q . 2)))"));
            let _ = run_raw(a, &d, p, NodePtr::NIL, CEILING);
        }
        H::RunFail => {
            let p = build(a, &parse_prog("(c (concat (q . \"abcdefgh\") (q . \"ijkl\")) (x (q . 1)))"));
            let _ = run_raw(a, &d, p, NodePtr::NIL, CEILING);
        }
        H::BlsOk => {
            let p = build(a, &list(&[atom(&[51]), quote(atom(&g1_gen()))]));
            let _ = run_raw(a, &d, p, NodePtr::NIL, CEILING);
        }
        H::BlsValidateThenFail => {
            // validates the generator (cache is only cleared on success) and then fails
            let p = build(a, &list(&[atom(&[4]), list(&[atom(&[51]), quote(atom(&g1_gen()))]), list(&[atom(&[8])])]));
            let _ = run_raw(a, &d, p, NodePtr::NIL, CEILING);
            let p = build(a, &list(&[atom(&[4]), list(&[atom(&[55]), quote(atom(&g2_gen()))]), list(&[atom(&[8])])]));
            let _ = run_raw(a, &d, p, NodePtr::NIL, CEILING);
        }
        H::SubjectItself => {
            let p = build(a, subject.0);
            let e = build(a, subject.1);
            let _ = run_raw(a, &d, p, e, CEILING);
        }
        H::CheckpointRestore => {
            let cp = a.checkpoint();
            a.new_atom(&big_atom(100)).unwrap();
            let x = a.new_atom(&[1, 2, 3, 4, 5, 6]).unwrap();
            a.new_pair(x, x).unwrap();
            a.restore_checkpoint(&cp);
        }
        H::FailedAlloc => {
            // an allocation that fails (concat with a wrong size) and leaves nothing behind
            let x = a.new_atom(b"zz").unwrap();
            let _ = a.new_concat(5, &[x, x]);
        }
    }
}

fn outcome_key(o: &Outcome) -> (bool, u64, u128, String, bool) {
    (o.ok, o.cost, o.digest, o.err.clone(), o.panicked)
}

fn check_case(prog: &T, env: &T, flags: ClvmFlags, max_hist: usize, scripts: bool, acc: &mut Acc, space: &str) {
    let d = ChiaDialect::new(flags);
    clvmr::verif::set_rng_script(Some(vec![]));
    // reference: fresh allocator, new_atom encodings
    let base = {
        let mut a = fresh_allocator(u32::MAX as usize);
        let p = build(&mut a, prog);
        let e = build(&mut a, env);
        run_raw(&mut a, &d, p, e, CEILING)
    };
    let choices = clvmr::verif::rng_choices_taken();
    acc.inc("runs");
    let canon = |what: String| format!("prog={} env={} flags={:#x} {what}", prog.hex(), env.hex(), flags.bits());
    if base.panicked {
        acc.violation(canon("fresh".into()), format!("[{space}] panic: {}", base.err));
        clvmr::verif::set_rng_script(None);
        return;
    }
    if base.hit_allocator_limit() {
        clvmr::verif::set_rng_script(None);
        return;
    }
    let bk = outcome_key(&base);
    // 1. re-encodings: all-heap, all-view, mixed, and every single-atom deviation from all-inline
    for enc in ENCS4 {
        if enc == Enc::Inline {
            continue;
        }
        let mut a = fresh_allocator(u32::MAX as usize);
        let mut b = Builder::new(Sharing::Fresh, enc);
        let p = b.build(&mut a, prog);
        let e = b.build(&mut a, env);
        let o = run_raw(&mut a, &d, p, e, CEILING);
        acc.inc("runs");
        acc.inc("reencoded_runs");
        if outcome_key(&o) != bk && !o.hit_allocator_limit() {
            acc.violation(canon(format!("encoding={enc:?}")), format!("[{space}] outcome depends on the atom representation: inline {} vs {enc:?} {}", base.brief(), o.brief()));
        }
    }
    let natoms = prog.count_nodes().0 + env.count_nodes().0;
    if natoms <= 12 {
        for dev in 0..natoms as usize {
            for enc in [Enc::Heap, Enc::View] {
                let mut a = fresh_allocator(u32::MAX as usize);
                let mut idx = 0usize;
                let p = build_dev(&mut a, prog, dev, enc, &mut idx);
                let e = build_dev(&mut a, env, dev, enc, &mut idx);
                let o = run_raw(&mut a, &d, p, e, CEILING);
                acc.inc("runs");
                acc.inc("reencoded_runs");
                if outcome_key(&o) != bk && !o.hit_allocator_limit() {
                    acc.violation(canon(format!("atom#{dev}={enc:?}")), format!("[{space}] outcome depends on the representation of atom #{dev}: {} vs {}", base.brief(), o.brief()));
                }
            }
        }
    }
    // 2. accumulator scripts (pre-hard-fork + / - slow path): every choice sequence
    if scripts && choices > 0 && choices <= 4 {
        for s in 1u32..(1 << choices) {
            let script: Vec<u8> = (0..choices).map(|i| ((s >> i) & 1) as u8).collect();
            clvmr::verif::set_rng_script(Some(script.clone()));
            let mut a = fresh_allocator(u32::MAX as usize);
            let p = build(&mut a, prog);
            let e = build(&mut a, env);
            let o = run_raw(&mut a, &d, p, e, CEILING);
            acc.inc("runs");
            acc.inc("scripted_runs");
            if outcome_key(&o) != bk {
                acc.violation(canon(format!("accumulator-script={script:?}")), format!("[{space}] outcome depends on the random accumulator choice: {} vs {}", base.brief(), o.brief()));
            }
        }
    }
    clvmr::verif::set_rng_script(Some(vec![]));
    // 3. prior histories: every sequence over HS up to max_hist
    let nh = HS.len();
    let mut total = 0usize;
    for len in 1..=max_hist {
        total += nh.pow(len as u32);
    }
    let mut idx = 0usize;
    for len in 1..=max_hist {
        for code in 0..nh.pow(len as u32) {
            idx += 1;
            let _ = (idx, total);
            let mut seq = vec![];
            let mut c = code;
            for _ in 0..len {
                seq.push(HS[c % nh]);
                c /= nh;
            }
            let mut a = fresh_allocator(u32::MAX as usize);
            for h in &seq {
                apply_history(&mut a, *h, (prog, env), flags);
            }
            let p = build(&mut a, prog);
            let e = build(&mut a, env);
            let o = run_raw(&mut a, &d, p, e, CEILING);
            acc.inc("runs");
            acc.inc("history_runs");
            if outcome_key(&o) != bk && !o.hit_allocator_limit() {
                acc.violation(canon(format!("history={seq:?}")), format!("[{space}] outcome depends on the allocator history: fresh {} vs after history {}", base.brief(), o.brief()));
            }
        }
    }
    clvmr::verif::set_rng_script(None);
    acc.outcome(base.cost ^ base.digest as u64 ^ fnv(base.err.as_bytes()));
}

fn build_dev(a: &mut Allocator, t: &T, dev: usize, enc: Enc, idx: &mut usize) -> NodePtr {
    match t {
        T::A(b) => {
            let e = if *idx == dev { enc } else { Enc::Inline };
            *idx += 1;
            crate::tree::mk_atom(a, b, e)
        }
        T::P(l, r) => {
            let l = build_dev(a, l, dev, enc, idx);
            let r = build_dev(a, r, dev, enc, idx);
            a.new_pair(l, r).unwrap()
        }
    }
}

/// BLS programs with valid and invalid points (the validation cache is keyed on point bytes)
fn bls_space() -> ProgSpace {
    let g1 = g1_gen();
    let g2 = g2_gen();
    let mut bad1 = g1.clone();
    bad1[47] ^= 1;
    let mut bad2 = g2.clone();
    bad2[95] ^= 1;
    let mut progs: Vec<Vec<u8>> = vec![];
    for (op, pts) in [(51u8, vec![g1.clone(), bad1.clone(), vec![0x11; 48]]), (55, vec![g2.clone(), bad2.clone(), vec![0x22; 96]]), (29, vec![g1.clone(), bad1.clone()]), (49, vec![g1.clone(), bad1.clone()]), (52, vec![g2.clone(), bad2.clone()])] {
        for p in &pts {
            progs.push(list(&[atom(&[op]), quote(atom(p))]).ser());
            progs.push(list(&[atom(&[op]), quote(atom(p)), quote(atom(p))]).ser());
            // the point arrives through the environment
            progs.push(cons(atom(&[op]), list(&[atom(&[2])])).ser());
        }
    }
    progs.push(list(&[atom(&[50]), quote(atom(&g1)), quote(atom(&[3]))]).ser());
    progs.push(list(&[atom(&[50]), quote(atom(&bad1)), quote(atom(&[3]))]).ser());
    let total = progs.len() as u64;
    let envs = [g1, bad1];
    ProgSpace { name: "BLS(valid and invalid points)".into(), total: total * 2, get: Box::new(move |i| (crate::tree::deser(&progs[(i / 2) as usize]).unwrap().0, list(&[atom(&envs[(i % 2) as usize])]))) }
}

pub fn run(ctx: &Ctx) -> Report {
    let mut rep = Report::new("C03", "exploration");
    let ops = { let mut o = all_single_byte_ops(); o.extend(multibyte_ops()); o };
    let max_hist = ctx.pick(2usize, 3);
    let spaces: Vec<(ProgSpace, usize)> = vec![
        (bls_space(), max_hist),
        (p_vectors(ctx.pick(1, 4)), ctx.pick(1, 2)),
        (p1("P1", ops.clone(), ctx.pick(vec![vec![], vec![1], vec![0x00, 0x80], vec![0x04, 0, 0, 0]], a12()), vec![vec![2u8], vec![11]], 2), ctx.pick(1, 2)),
        (p1b(vec![vec![16], vec![17], vec![18], vec![19], vec![20], vec![21], vec![24], vec![25], vec![26], vec![27], vec![9], vec![10], vec![11], vec![12], vec![13], vec![14], vec![22], vec![23], vec![61]], ctx.pick(2, 3)), 1),
        (p4(ctx.pick(6, 20), false), max_hist),
        (p5_thin(), 1),
        (p_paths(30), 1),
    ];
    let flagsets = [ClvmFlags::empty(), ClvmFlags::NEW_COST_MODEL | ClvmFlags::ENABLE_GC];
    let seed = ctx.seed;
    let mut notes = vec![];
    for (sp, mh) in &spaces {
        let t_space = std::time::Instant::now();
        let acc = par_for(ctx, sp.total * 2, 4, |i| { let (p, e) = sp.at(i / 2); format!("prog={} env={} flags={:#x}", p.hex(), e.hex(), flagsets[(i % 2) as usize].bits()) }, |i, acc| {
            let (p, e) = sp.at(i / 2);
            check_case(&p, &e, flagsets[(i % 2) as usize], *mh, true, acc, &sp.name);
            acc.inc("cases");
            acc.maybe_sample(sample_key(seed, i ^ fnv(sp.name.as_bytes())), || json!({"space": sp.name, "prog": p.hex(), "histories_up_to": mh}));
        });
        notes.push(json!({"space": sp.name, "wall_s": t_space.elapsed().as_secs_f64(), "programs": sp.total, "max_history_length": mh}));
        rep.absorb(acc);
    }
    rep.note("spaces", json!(notes));
    rep.note("history_alphabet", json!(HS.iter().map(|h| format!("{h:?}")).collect::<Vec<_>>()));
    rep.evaluations = rep.acc.get("runs");
    rep.nontrivial = rep.acc.get("history_runs") + rep.acc.get("reencoded_runs") + rep.acc.get("scripted_runs");
    rep.states = rep.acc.get("cases");
    rep.transitions = rep.acc.get("runs");
    rep.traces = rep.acc.get("cases");
    rep.rule = format!("for every program of BLS (valid / invalid / off-curve points as constants and through the environment), PV, P1, P1b, P4, P5thin, PATHS under 2 flag sets: the outcome (result, cost, error string) in a fresh allocator with new_atom encodings is compared with (1) the all-heap, all-view and mixed re-encodings and every single-atom deviation to heap or view (deviation bound 1), (2) every scripted sequence of accumulator choices of the pre-hard-fork + / - slow path (hook H4, <=4 choices), (3) the run after EVERY prior history of length <= {max_hist} (shorter for the large spaces) over the alphabet {:?} (junk allocations, earlier succeeding / failing runs, runs that validate BLS points and then fail, an earlier run of the subject itself, checkpoint+restore, a failed allocation). Runs that hit an allocator limit are excluded as the property states. Non-trivial = re-encoded, scripted and history runs compared.", HS);
    rep
}
