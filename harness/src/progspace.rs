// Engine A — program spaces and the program runner shared by C01..C11, C23, C25, C30, C31.
use crate::common::*;
use crate::domains::*;
use crate::tree::{self, Builder, Enc, Sharing, T, TreeSpace, atom, cons, int_atom, list, list_t, nil, quote};
use clvmr::allocator::{Allocator, Checkpoint, NodePtr, SExp};
use clvmr::chia_dialect::{ChiaDialect, ClvmFlags};
use clvmr::cost::Cost;
use clvmr::dialect::{Dialect, OperatorSet};
use clvmr::error::EvalErr;
use clvmr::more_ops::op_unknown;
use clvmr::reduction::Response;
use clvmr::run_program::run_program;
use std::collections::HashMap;

// ---------------------------------------------------------------------
// opcode names (for writing programs as text)
pub const OPNAMES: &[(&str, u8)] = &[
    ("q", 1), ("a", 2), ("i", 3), ("c", 4), ("f", 5), ("r", 6), ("l", 7), ("x", 8), ("=", 9), (">s", 10),
    ("sha256", 11), ("substr", 12), ("strlen", 13), ("concat", 14), ("+", 16), ("-", 17), ("*", 18), ("/", 19),
    ("divmod", 20), (">", 21), ("ash", 22), ("lsh", 23), ("logand", 24), ("logior", 25), ("logxor", 26),
    ("lognot", 27), ("point_add", 29), ("pubkey_for_exp", 30), ("not", 32), ("any", 33), ("all", 34),
    ("softfork", 36), ("coinid", 48), ("g1_subtract", 49), ("g1_multiply", 50), ("g1_negate", 51), ("g2_add", 52),
    ("g2_subtract", 53), ("g2_multiply", 54), ("g2_negate", 55), ("g1_map", 56), ("g2_map", 57),
    ("bls_pairing_identity", 58), ("bls_verify", 59), ("modpow", 60), ("%", 61), ("keccak256", 62),
    ("sha256tree", 63), ("secp256k1_verify", 64), ("secp256r1_verify", 65),
];

/// parse program text: like tree::parse_sexp but symbols are opcodes
pub fn parse_prog(s: &str) -> T {
    fn tok(s: &str) -> Vec<String> {
        let mut out = vec![];
        let cs: Vec<char> = s.chars().collect();
        let mut i = 0;
        while i < cs.len() {
            let c = cs[i];
            if c.is_whitespace() {
                i += 1;
            } else if c == '(' || c == ')' {
                out.push(c.to_string());
                i += 1;
            } else if c == '"' {
                let mut j = i + 1;
                while cs[j] != '"' {
                    j += 1;
                }
                out.push(cs[i..=j].iter().collect());
                i = j + 1;
            } else {
                let mut j = i;
                while j < cs.len() && !cs[j].is_whitespace() && cs[j] != '(' && cs[j] != ')' {
                    j += 1;
                }
                out.push(cs[i..j].iter().collect());
                i = j;
            }
        }
        out
    }
    fn go(t: &[String], pos: &mut usize) -> T {
        let x = &t[*pos];
        *pos += 1;
        if x == "(" {
            let mut items = vec![];
            let mut term = nil();
            loop {
                if t[*pos] == ")" {
                    *pos += 1;
                    break;
                }
                if t[*pos] == "." {
                    *pos += 1;
                    term = go(t, pos);
                    assert!(t[*pos] == ")");
                    *pos += 1;
                    break;
                }
                items.push(go(t, pos));
            }
            list_t(&items, term)
        } else {
            for (n, c) in OPNAMES {
                if x == n {
                    return atom(&[*c]);
                }
            }
            tree::parse_atom_tok(x)
        }
    }
    let t = tok(s);
    let mut pos = 0;
    let r = go(&t, &mut pos);
    assert!(pos == t.len(), "trailing tokens in {s}");
    r
}

// ---------------------------------------------------------------------
// digests (sharing-insensitive, cheap on DAGs)
pub fn node_digest(a: &Allocator, n: NodePtr) -> u128 {
    enum Op {
        V(NodePtr),
        C(NodePtr),
    }
    let mut memo: HashMap<NodePtr, u128> = HashMap::new();
    let mut ops = vec![Op::V(n)];
    let mut vals: Vec<u128> = vec![];
    while let Some(op) = ops.pop() {
        match op {
            Op::V(n) => {
                if let Some(d) = memo.get(&n) {
                    vals.push(*d);
                    continue;
                }
                match a.sexp(n) {
                    SExp::Atom => vals.push(atom_digest(a.atom(n).as_ref())),
                    SExp::Pair(l, r) => {
                        ops.push(Op::C(n));
                        ops.push(Op::V(r));
                        ops.push(Op::V(l));
                    }
                }
            }
            Op::C(n) => {
                let r = vals.pop().unwrap();
                let l = vals.pop().unwrap();
                let d = pair_digest(l, r);
                memo.insert(n, d);
                vals.push(d);
            }
        }
    }
    vals.pop().unwrap()
}
pub fn atom_digest(b: &[u8]) -> u128 {
    let h1 = fnv(b);
    let h2 = fnv_mix(h1 ^ b.len() as u64, b);
    ((h1 as u128) << 64) | h2 as u128
}
pub fn pair_digest(l: u128, r: u128) -> u128 {
    let a = (l ^ 0x9e3779b97f4a7c15f39cc0605cedc834u128).wrapping_mul(0x2545f4914f6cdd1d0000000100000001u128 | 1);
    let b = (r ^ 0xc2b2ae3d27d4eb4f165667b19e3779f9u128).wrapping_mul(0x9fb21c651e98df25ff51afd7ed558ccdu128 | 1);
    (a.rotate_left(41) ^ b).wrapping_mul(0x100000001b3u128 << 32 | 0x1b3) ^ (a >> 17)
}
pub fn t_digest(t: &T) -> u128 {
    enum Op<'a> {
        V(&'a T),
        C,
    }
    let mut ops = vec![Op::V(t)];
    let mut vals: Vec<u128> = vec![];
    while let Some(op) = ops.pop() {
        match op {
            Op::V(T::A(b)) => vals.push(atom_digest(b)),
            Op::V(T::P(l, r)) => {
                ops.push(Op::C);
                ops.push(Op::V(r));
                ops.push(Op::V(l));
            }
            Op::C => {
                let r = vals.pop().unwrap();
                let l = vals.pop().unwrap();
                vals.push(pair_digest(l, r));
            }
        }
    }
    vals.pop().unwrap()
}

// ---------------------------------------------------------------------
// outcomes
#[derive(Clone, Debug, PartialEq, Eq)]
pub struct Outcome {
    pub ok: bool,
    pub cost: u64,
    pub digest: u128,
    pub err: String,
    pub counts: (usize, usize, usize),
    pub allocated: (usize, usize, usize),
    pub panicked: bool,
}
impl Outcome {
    pub fn brief(&self) -> String {
        if self.panicked {
            format!("PANIC {}", self.err)
        } else if self.ok {
            format!("Ok(cost={}, result#{:032x})", self.cost, self.digest)
        } else {
            format!("Err({})", self.err)
        }
    }
    pub fn is_cost_exceeded(&self) -> bool {
        !self.ok && self.err == "cost exceeded or below zero"
    }
    pub fn hit_allocator_limit(&self) -> bool {
        !self.ok && (self.err == "Out of Memory" || self.err == "too many pairs" || self.err == "Too Many Atoms")
    }
    pub fn internal_error(&self) -> bool {
        !self.ok && self.err.starts_with("Internal Error")
    }
}

pub fn err_string(e: &EvalErr) -> String {
    e.to_string()
}

/// run on an allocator that already holds prog/env; does NOT restore anything
pub fn run_raw<D: Dialect>(a: &mut Allocator, d: &D, p: NodePtr, e: NodePtr, budget: Cost) -> Outcome {
    let r = std::panic::catch_unwind(std::panic::AssertUnwindSafe(|| run_program(a, d, p, e, budget)));
    let counts = (a.atom_count(), a.pair_count(), a.heap_size());
    let allocated = (a.allocated_atom_count(), a.allocated_pair_count(), a.allocated_heap_size());
    match r {
        Ok(Ok(red)) => Outcome { ok: true, cost: red.0, digest: node_digest(a, red.1), err: String::new(), counts, allocated, panicked: false },
        Ok(Err(e)) => Outcome { ok: false, cost: 0, digest: 0, err: err_string(&e), counts, allocated, panicked: false },
        Err(p) => Outcome { ok: false, cost: 0, digest: 0, err: panic_msg(p), counts, allocated, panicked: true },
    }
}

/// a program + environment loaded into a thread-local allocator; every run starts from the same state
pub struct Loaded<'a> {
    pub a: &'a mut Allocator,
    pub p: NodePtr,
    pub e: NodePtr,
    cp: Checkpoint,
}
impl Loaded<'_> {
    pub fn restore(&mut self) {
        self.a.restore_checkpoint(&self.cp);
    }
    pub fn run<D: Dialect>(&mut self, d: &D, budget: Cost) -> Outcome {
        self.a.clear_validation_caches();
        let o = run_raw(self.a, d, self.p, self.e, budget);
        self.a.restore_checkpoint(&self.cp);
        o
    }
    pub fn run_flags(&mut self, flags: ClvmFlags, budget: Cost) -> Outcome {
        let d = ChiaDialect::new(flags);
        self.run(&d, budget)
    }
    /// run and keep the result tree (as hex of its classic serialization, capped)
    pub fn run_show<D: Dialect>(&mut self, d: &D, budget: Cost) -> (Outcome, String) {
        self.a.clear_validation_caches();
        let r = std::panic::catch_unwind(std::panic::AssertUnwindSafe(|| run_program(self.a, d, self.p, self.e, budget)));
        let s = match &r {
            Ok(Ok(red)) => {
                let b = tree::read_ser(self.a, red.1);
                if b.len() > 200 { format!("{}..({} bytes)", hx(&b[..200]), b.len()) } else { hx(&b) }
            }
            Ok(Err(e)) => format!("Err({e})"),
            Err(_) => "PANIC".into(),
        };
        self.a.restore_checkpoint(&self.cp);
        let o = self.run(d, budget);
        (o, s)
    }
}

thread_local! {
    static TL_TEMPLATES: std::cell::RefCell<Vec<(usize, Allocator)>> = const { std::cell::RefCell::new(Vec::new()) };
}

/// load prog/env (given encoding) into a fresh allocator (a fork of an empty template, so the
/// 1 MiB capacity reservation of Allocator::new() is not paid per case) and call f.
pub fn with_loaded<R>(prog: &T, env: &T, enc: Enc, f: impl FnOnce(&mut Loaded) -> R) -> R {
    with_loaded_limit(prog, env, enc, u32::MAX as usize, f)
}
pub fn fresh_allocator(heap_limit: usize) -> Allocator {
    TL_TEMPLATES.with(|cell| {
        let mut v = cell.borrow_mut();
        if let Some((_, t)) = v.iter().find(|(l, _)| *l == heap_limit) {
            return t.verif_fork();
        }
        let t = Allocator::new_limited(heap_limit).verif_fork();
        let r = t.verif_fork();
        v.push((heap_limit, t));
        r
    })
}
pub fn with_loaded_limit<R>(prog: &T, env: &T, enc: Enc, heap_limit: usize, f: impl FnOnce(&mut Loaded) -> R) -> R {
    let mut a = fresh_allocator(heap_limit);
    let mut b = Builder::new(Sharing::Fresh, enc);
    let p = b.build(&mut a, prog);
    let e = b.build(&mut a, env);
    let cp = a.checkpoint();
    let mut l = Loaded { a: &mut a, p, e, cp };
    f(&mut l)
}

// ---------------------------------------------------------------------
// a dialect that hides the softfork extensions and the 4-byte secp opcodes (C08, C31)
pub struct HideExt {
    pub inner: ChiaDialect,
    pub flags: ClvmFlags,
}
impl HideExt {
    pub fn new(flags: ClvmFlags) -> Self {
        HideExt { inner: ChiaDialect::new(flags), flags }
    }
}
impl Dialect for HideExt {
    fn quote_kw(&self) -> u32 {
        self.inner.quote_kw()
    }
    fn apply_kw(&self) -> u32 {
        self.inner.apply_kw()
    }
    fn softfork_kw(&self) -> u32 {
        self.inner.softfork_kw()
    }
    fn softfork_extension(&self, _ext: u32) -> OperatorSet {
        OperatorSet::Default
    }
    fn flags(&self) -> ClvmFlags {
        self.inner.flags()
    }
    fn gc_candidate(&self, allocator: &Allocator, op: NodePtr) -> bool {
        self.inner.gc_candidate(allocator, op)
    }
    fn op(&self, allocator: &mut Allocator, op: NodePtr, args: NodePtr, max_cost: Cost, ext: OperatorSet) -> Response {
        let b = allocator.atom(op).as_ref().to_vec();
        // an extension-unaware node knows no multi-byte operator at all: every 4-byte opcode follows the
        // unknown-operator rule (not only the two that are assigned today)
        if b.len() == 4 {
            if self.flags.contains(ClvmFlags::NO_UNKNOWN_OPS) {
                return Err(EvalErr::Unimplemented(op));
            }
            return op_unknown(allocator, op, args, max_cost, self.flags);
        }
        self.inner.op(allocator, op, args, max_cost, ext)
    }
    fn allow_unknown_ops(&self) -> bool {
        self.inner.allow_unknown_ops()
    }
}

// ---------------------------------------------------------------------
// program spaces
pub struct ProgSpace {
    pub name: String,
    pub total: u64,
    pub get: Box<dyn Fn(u64) -> (T, T) + Sync + Send>,
}
impl ProgSpace {
    pub fn at(&self, i: u64) -> (T, T) {
        (self.get)(i)
    }
}

pub fn std_env() -> T {
    // path 2 -> 0x80 (-128), 5 -> 0x0080 (128), 11 -> (1 . 2), 23 -> "env", tail nil
    list(&[atom(&[0x80]), atom(&[0x00, 0x80]), cons(atom(&[1]), atom(&[2])), atom(b"env")])
}

pub fn classic_ops() -> Vec<Vec<u8>> {
    (3u8..=36).filter(|o| *o != 29 && *o != 30).map(|o| vec![o]).collect()
}
pub fn all_single_byte_ops() -> Vec<Vec<u8>> {
    let mut v: Vec<Vec<u8>> = (3u8..=36).map(|o| vec![o]).collect();
    v.extend((48u8..=65).map(|o| vec![o]));
    v
}
pub fn multibyte_ops() -> Vec<Vec<u8>> {
    vec![
        vec![0x3c, 0x3f], vec![0x00, 0x10], vec![0xff, 0xff, 0x01], vec![0x40], vec![0x80], vec![0xc0], vec![0x01, 0x40],
        vec![0xff, 0xfe, 0x80], vec![0, 0, 0, 0, 0, 1], vec![0x7f, 0xff, 0xff, 0xff, 0xc1], vec![0x0f, 0xff, 0xff, 0x81],
        vec![0x13, 0xd6, 0x1f, 0x00], vec![0x1c, 0x3a, 0x8f, 0x00], vec![0x13, 0xd6, 0x1f, 0x01], vec![0x00, 0x03], vec![0x00],
        // canonical multi-byte integers whose LOW byte is an assigned opcode (a dispatcher that truncates would run it)
        vec![0x01, 0x10], vec![0x01, 0x0b], vec![0x01, 0x00, 0x04],
    ]
}

/// P1: (op a1 .. an), n <= max_arity, ai in {(q . c) : c in consts} u {paths}
pub fn p1(name: &str, ops: Vec<Vec<u8>>, consts: Vec<Vec<u8>>, paths: Vec<Vec<u8>>, max_arity: usize) -> ProgSpace {
    let k = (consts.len() + paths.len()) as u64;
    let per_op: u64 = (0..=max_arity).map(|a| k.pow(a as u32)).sum();
    let total = ops.len() as u64 * per_op;
    let env = std_env().ser();
    ProgSpace {
        name: name.to_string(),
        total,
        get: Box::new(move |i| {
            let op = &ops[(i / per_op) as usize];
            let mut r = i % per_op;
            let mut arity = 0;
            loop {
                let c = k.pow(arity as u32);
                if r < c {
                    break;
                }
                r -= c;
                arity += 1;
            }
            let mut args = vec![];
            for _ in 0..arity {
                let x = (r % k) as usize;
                r /= k;
                if x < consts.len() {
                    args.push(quote(atom(&consts[x])));
                } else {
                    args.push(atom(&paths[x - consts.len()]));
                }
            }
            (cons(atom(op), list(&args)), tree::deser(&env).unwrap().0)
        }),
    }
}

/// P2: (op1 (op2 x y) z) and (op1 z (op2 x y)), x,y,z in (q . consts)
pub fn p2(ops: Vec<Vec<u8>>, consts: Vec<Vec<u8>>) -> ProgSpace {
    let no = ops.len() as u64;
    let k = consts.len() as u64;
    let total = no * no * k * k * k * 2;
    let env = std_env().ser();
    ProgSpace {
        name: "P2".into(),
        total,
        get: Box::new(move |i| {
            let mut r = i;
            let side = r % 2;
            r /= 2;
            let z = quote(atom(&consts[(r % k) as usize]));
            r /= k;
            let y = quote(atom(&consts[(r % k) as usize]));
            r /= k;
            let x = quote(atom(&consts[(r % k) as usize]));
            r /= k;
            let o2 = &ops[(r % no) as usize];
            r /= no;
            let o1 = &ops[r as usize];
            let inner = list(&[atom(o2), x, y]);
            let p = if side == 0 { list(&[atom(o1), inner, z]) } else { list(&[atom(o1), z, inner]) };
            (p, tree::deser(&env).unwrap().0)
        }),
    }
}

/// P3: every program tree of TREES(k, prog atoms) against every env of TREES(j, A4)
pub fn p3(k: usize, j: usize) -> ProgSpace {
    p3_env(k, j, &a4())
}
pub fn p3_env(k: usize, j: usize, eatoms: &[Vec<u8>]) -> ProgSpace {
    let patoms: Vec<Vec<u8>> = vec![vec![1], vec![2], vec![3], vec![4], vec![5], vec![6], vec![0x24], vec![], vec![0, 1], vec![1, 0]];
    let ps = TreeSpace::new(k, &atoms_t(&patoms));
    let es = TreeSpace::new(j, &atoms_t(eatoms));
    let total = ps.total * es.total;
    let et = es.total;
    ProgSpace { name: format!("P3(TREES({k},10 atoms) x TREES({j},{} atoms))", eatoms.len()), total, get: Box::new(move |i| (ps.get(i / et), es.get(i % et))) }
}

/// raw-syntax programs ((op . it) . args . term) — the only way to reach improper argument lists
pub fn p_raw(ops: Vec<Vec<u8>>, consts: Vec<Vec<u8>>) -> ProgSpace {
    let k = consts.len() as u64;
    let per_op = (1 + k + k * k) * 4;
    let total = ops.len() as u64 * per_op;
    let env = std_env().ser();
    ProgSpace {
        name: "RAW".into(),
        total,
        get: Box::new(move |i| {
            let op = &ops[(i / per_op) as usize];
            let mut r = i % per_op;
            let term = if r % 2 == 0 { nil() } else { atom(&[5]) };
            r /= 2;
            let it = if r % 2 == 0 { nil() } else { atom(&[9]) };
            r /= 2;
            let mut args = vec![];
            if r >= 1 {
                r -= 1;
                if r < k {
                    args.push(atom(&consts[r as usize]));
                } else {
                    r -= k;
                    args.push(atom(&consts[(r % k) as usize]));
                    args.push(atom(&consts[(r / k) as usize]));
                }
            }
            (cons(cons(atom(op), it), list_t(&args, term)), tree::deser(&env).unwrap().0)
        }),
    }
}

/// a fixed list of (program text, env text) families with one integer parameter
pub struct Family {
    pub name: &'static str,
    pub prog: &'static str,
    /// env as a function of n
    pub env: fn(u64) -> T,
    pub classic: bool, // only classic operators (usable by C01)
}

fn env_n(n: u64) -> T {
    list(&[int_atom(n as i128)])
}
/// for the one family whose work doubles with n: 8 * 2^n bytes, capped at 512 KiB (larger n repeat n = 16)
fn env_n_cap16(n: u64) -> T {
    env_n(n.min(16))
}
fn env_x_n(n: u64) -> T {
    list(&[int_atom(5033), int_atom(n as i128)])
}
fn env_big_n(n: u64) -> T {
    // (600-byte atom, n)
    list(&[atom(&big_atom(600)), int_atom(n as i128)])
}
fn env_list_n(n: u64) -> T {
    // ((1 2 ... n))
    let items: Vec<T> = (1..=n).map(|i| int_atom(i as i128 * 1000003)).collect();
    list(&[list(&items)])
}
fn env_tree_n(n: u64) -> T {
    // a complete-ish tree with n leaves of 32-byte atoms
    fn build(lo: u64, hi: u64) -> T {
        if hi - lo <= 1 {
            let mut b = vec![0x11u8; 32];
            b[0] = lo as u8;
            b[1] = (lo >> 8) as u8;
            atom(&b)
        } else {
            let mid = (lo + hi) / 2;
            cons(build(lo, mid), build(mid, hi))
        }
    }
    list(&[if n == 0 { nil() } else { build(0, n) }])
}

pub const SHA256TREE_CLSP: &str = "(a (q 2 2 (c 2 (c 5 ()))) (c (q 2 (i (l 5) (q 11 (q . 2) (a 2 (c 2 (c 9 ()))) (a 2 (c 2 (c 13 ())))) (q 11 (q . 1) 5)) 1) 1))";

pub fn families() -> Vec<Family> {
    vec![
        // (mod (X N) (defun sum (X N) (if (= N 0) 1 (+ X (sum X (- N 1))))) (sum X N))
        Family { name: "recursive-sum", prog: "(a (q 2 2 (c 2 (c 5 (c 11 ())))) (c (q 2 (i (= 11 ()) (q 1 . 1) (q 16 5 (a 2 (c 2 (c 5 (c (- 11 (q . 1)) ())))))) 1) 1))", env: env_x_n, classic: true },
        // build a list of N conses: (defun f (N) (if (= N 0) () (c N (f (- N 1)))))
        Family { name: "cons-list", prog: "(a (q 2 2 (c 2 (c 5 ()))) (c (q 2 (i (= 5 ()) (q 1) (q 4 5 (a 2 (c 2 (c (- 5 (q . 1)) ()))))) 1) 1))", env: env_n, classic: true },
        // concat doubling: f(N, S) = if N==0 then S else f(N-1, concat S S); returns strlen
        Family { name: "concat-doubling-strlen", prog: "(strlen (a (q 2 2 (c 2 (c 5 (c 11 ())))) (c (q 2 (i (= 5 ()) (q . 11) (q 2 2 (c 2 (c (- 5 (q . 1)) (c (concat 11 11) ()))))) 1) (c 2 (c (q . \"abcdefgh\") ())))))", env: env_n_cap16, classic: true },
        // sha256 chain: f(N, S) = if N==0 then S else f(N-1, sha256 S)
        Family { name: "sha256-chain", prog: "(a (q 2 2 (c 2 (c 5 (c 11 ())))) (c (q 2 (i (= 5 ()) (q . 11) (q 2 2 (c 2 (c (- 5 (q . 1)) (c (sha256 11) ()))))) 1) (c 2 (c (q . \"seed\") ()))))", env: env_n, classic: true },
        // substr of a big env atom, N times nested inside a GC candidate: (strlen (substr BIG 1 (+ 1 N)))
        Family { name: "substr-env-view", prog: "(strlen (substr 2 (q . 1) (+ (q . 1) 5)))", env: env_big_n, classic: true },
        // returns a view into the environment from inside a GC candidate after producing garbage
        Family { name: "gc-view-result", prog: "(a (q 2 (i (= (strlen (concat 2 2 2)) (q . 1800)) (q 12 2 (q . 3) (+ (q . 3) 5)) (q . 0)) 1) 1)", env: env_big_n, classic: true },
        // garbage then small result: (= (sha256 (concat BIG BIG)) (sha256 (concat BIG BIG)))
        Family { name: "gc-small-result", prog: "(+ (strlen (concat 2 2)) (strlen (concat 2 2 2)) 5)", env: env_big_n, classic: true },
        // garbage then a pair result from an apply
        Family { name: "gc-pair-result", prog: "(a (q 4 (strlen (concat 2 2)) (c (concat 2 (q . 1)) ())) 1)", env: env_big_n, classic: true },
        // > 48 byte result
        Family { name: "gc-large-result", prog: "(a (q 14 (sha256 (concat 2 2)) (sha256 2) (q . 0xffff)) 1)", env: env_big_n, classic: true },
        // list sum over an env list: (defun s (L) (if L (+ (f L) (s (r L))) 0))
        Family { name: "list-sum", prog: "(a (q 2 2 (c 2 (c 5 ()))) (c (q 2 (i 5 (q 16 9 (a 2 (c 2 (c 13 ())))) (q 1)) 1) 1))", env: env_list_n, classic: true },
        // multiply chain: product of list
        Family { name: "list-product", prog: "(a (q 2 2 (c 2 (c 5 ()))) (c (q 2 (i 5 (q 18 9 (a 2 (c 2 (c 13 ())))) (q 1 . 1)) 1) 1))", env: env_list_n, classic: true },
        // ChiaLisp sha256tree over an env tree
        Family { name: "clsp-sha256tree", prog: SHA256TREE_CLSP, env: env_tree_n, classic: true },
        // logic / shifts over growing numbers
        Family { name: "shift-grow", prog: "(strlen (ash (q . 1) (* 5 (q . 8))))", env: env_n, classic: true },
        Family { name: "lsh-neg", prog: "(lsh (q . 0x00ffffffffffffffffff) (- () 5))", env: env_n, classic: true },
        Family { name: "divmod-neg", prog: "(divmod (- () 5) (q . 7))", env: env_n, classic: true },
        Family { name: "div-floor", prog: "(c (/ (- () 5) (q . 2)) (/ 5 (q . -2)))", env: env_n, classic: true },
        Family { name: "not-any-all", prog: "(c (not 5) (c (any 5 () 5) (all 5 5 ())))", env: env_n, classic: true },
        // post-classic operators
        Family { name: "coinid", prog: "(coinid (sha256 5) (sha256 (q . 1)) 5)", env: env_n, classic: false },
        Family { name: "modpow", prog: "(modpow (q . 3) 5 (q . 0x00ffffffffffffffc5))", env: env_n, classic: false },
        Family { name: "mod", prog: "(% (- () 5) (q . 13))", env: env_n, classic: false },
        Family { name: "pubkey-strlen", prog: "(strlen (pubkey_for_exp 5))", env: env_n, classic: false },
        Family { name: "g1-mult-add", prog: "(= (point_add (pubkey_for_exp 5) (pubkey_for_exp (q . 1))) (pubkey_for_exp (+ 5 (q . 1))))", env: env_n, classic: false },
    ]
}

pub fn p4(nmax: u64, classic_only: bool) -> ProgSpace {
    let fams: Vec<(String, Vec<u8>, fn(u64) -> T)> = families().into_iter().filter(|f| f.classic || !classic_only).map(|f| (f.name.to_string(), parse_prog(f.prog).ser(), f.env)).collect();
    let per = nmax + 1;
    let total = fams.len() as u64 * per;
    ProgSpace {
        name: format!("P4({} families, n<={nmax})", fams.len()),
        total,
        get: Box::new(move |i| {
            let (_, p, e) = &fams[(i / per) as usize];
            (tree::deser(p).unwrap().0, e(i % per))
        }),
    }
}

/// the programs from tests/programs/*.hex if present (program, env = nil)
pub fn repo_programs() -> Vec<(String, T)> {
    let mut out = vec![];
    if let Ok(rd) = std::fs::read_dir("/repo/tests/programs") {
        let mut names: Vec<_> = rd.filter_map(|e| e.ok()).map(|e| e.path()).collect();
        names.sort();
        for p in names {
            if p.extension().map(|e| e == "hex").unwrap_or(false) {
                if let Ok(s) = std::fs::read_to_string(&p) {
                    if let Ok(b) = hex::decode(s.trim()) {
                        if let Some((t, _)) = tree::deser(&b) {
                            out.push((p.file_name().unwrap().to_string_lossy().to_string(), t));
                        }
                    }
                }
            }
        }
    }
    out
}

// ---------------------------------------------------------------------
// P5: softfork guards (full operator set)

/// a valid argument list taken from the repository's vectors (first succeeding line of `file`)
pub fn vector_args(file: &str, opname: &str, want_ok: bool) -> Option<T> {
    crate::vectors::load(file).into_iter().find(|v| v.opname == opname && v.expect.is_some() == want_ok).map(|v| v.args)
}
fn quoted_call(op: &[u8], args: &T) -> T {
    let mut items = vec![];
    let mut cur = args.clone();
    while let T::P(a, b) = &cur {
        items.push(quote((**a).clone()));
        let n = (**b).clone();
        cur = n;
    }
    cons(atom(op), list(&items))
}

pub fn guard_inner_programs() -> Vec<(String, T)> {
    let g1 = hx(&g1_gen());
    let g2 = hx(&g2_gen());
    let mut v: Vec<(String, T)> = vec![];
    let mut add = |name: &str, t: T| v.push((name.to_string(), t));
    for (n, s) in [
        ("quote", "(q . 1)".to_string()),
        ("add", "(+ (q . 1) (q . 2))".to_string()),
        ("raise", "(x)".to_string()),
        ("cons", "(c (q . 1) (q . 2))".to_string()),
        ("path", "2".to_string()),
        ("path-into-atom", "7".to_string()),
        ("sha256", "(sha256 (q . 1) (q . 2))".to_string()),
        ("keccak", "(keccak256 (q . \"abc\"))".to_string()),
        ("keccak-bad", "(keccak256 (q 1 2))".to_string()),
        ("sha256tree", "(sha256tree (q 1 2 3))".to_string()),
        ("coinid", "(coinid (sha256 (q . 1)) (sha256 (q . 2)) (q . 100))".to_string()),
        ("alloc-heavy", "(strlen (concat (q . \"0123456789abcdef0123456789abcdef0123456789abcdef0123456789abcdef\") (q . \"0123456789abcdef\")))".to_string()),
        ("conses", "(c (c (q . 1) (q . 2)) (c (q . 3) (c (q . 4) (q . 5))))".to_string()),
        ("g1-negate", format!("(g1_negate (q . 0x{g1}))")),
        ("g1-negate-bad", "(g1_negate (q . 0x010203))".to_string()),
        ("g1-subtract", format!("(g1_subtract (q . 0x{g1}) (q . 0x{g1}))")),
        ("point-add", format!("(point_add (q . 0x{g1}) (q . 0x{g1}))")),
        ("pubkey", "(pubkey_for_exp (q . 5))".to_string()),
        ("g1-multiply", format!("(g1_multiply (q . 0x{g1}) (q . 3))")),
        ("g2-add", format!("(g2_add (q . 0x{g2}) (q . 0x{g2}))")),
        ("g2-negate", format!("(g2_negate (q . 0x{g2}))")),
        ("g1-map", "(g1_map (q . \"msg\"))".to_string()),
        ("unknown-op", "(0x3c3f (q . 1))".to_string()),
        ("unknown-op-62-args", "(keccak256)".to_string()),
        ("modpow", "(modpow (q . 3) (q . 5) (q . 7))".to_string()),
        ("nested-guard-bad-cost", "(softfork (q . 10) (q . 0) (q . (q . 1)) (q . ()))".to_string()),
        ("nested-guard-ok", "(softfork (q . 160) (q . 0) (q . (q . 1)) (q . ()))".to_string()),
        ("nested-guard-ok-new", "(softfork (q . 520) (q . 0) (q . (q . 1)) (q . ()))".to_string()),
    ] {
        add(n, parse_prog(&s));
    }
    if let Some(a) = vector_args("test-secp-verify.txt", "secp256k1_verify", true) {
        add("secp256k1-4byte-ok", quoted_call(&[0x13, 0xd6, 0x1f, 0x00], &a));
        // corrupt the message
        if let T::P(pk, rest) = &a {
            if let T::P(_m, rest2) = &**rest {
                let bad = cons((**pk).clone(), cons(atom(&[0x11; 32]), (**rest2).clone()));
                add("secp256k1-4byte-bad", quoted_call(&[0x13, 0xd6, 0x1f, 0x00], &bad));
            }
        }
    }
    if let Some(a) = vector_args("test-secp-verify.txt", "secp256r1_verify", true) {
        add("secp256r1-4byte-ok", quoted_call(&[0x1c, 0x3a, 0x8f, 0x00], &a));
    }
    if let Some(a) = vector_args("test-blspy-verify.txt", "bls_verify", true) {
        add("bls-verify-ok", quoted_call(&[59], &a));
    }
    if let Some(a) = vector_args("test-blspy-pairing.txt", "bls_pairing_identity", true) {
        add("bls-pairing-ok", quoted_call(&[58], &a));
    }
    v
}

/// cost of evaluating `ip` in `env` under `flags` (with every post-fork operator enabled, as inside a guard)
pub fn standalone_cost(ip: &T, env: &T, flags: ClvmFlags) -> Option<u64> {
    with_loaded(ip, env, Enc::Inline, |l| {
        let o = l.run_flags(flags | ClvmFlags::ENABLE_KECCAK_OPS_OUTSIDE_GUARD, 0);
        if o.ok { Some(o.cost) } else { None }
    })
}

pub struct GuardSpec {
    pub inner: usize,
    pub ext: usize,
    pub cost: usize,
    pub ctx: usize,
}
pub const GUARD_EXTS: usize = 7;
pub const GUARD_COSTS: usize = 16;
pub const GUARD_CTXS: usize = 6;

pub fn guard_ext(i: usize) -> T {
    match i {
        0 => quote(nil()),
        1 => quote(atom(&[1])),
        2 => quote(atom(&[2])),
        3 => quote(atom(&[0x00, 0xff, 0xff, 0xff, 0xff])),
        4 => quote(atom(&[0x01, 0, 0, 0, 0])),
        5 => quote(atom(&[0x00])),
        _ => quote(cons(atom(&[1]), nil())),
    }
}

/// declared-cost argument #i given the exact costs under both models
pub fn guard_cost(i: usize, exact_old: Option<u64>, exact_new: Option<u64>) -> T {
    let eo = exact_old.map(|c| c + 140).unwrap_or(1000) as i128;
    let en = exact_new.map(|c| c + 500).unwrap_or(2000) as i128;
    let v = match i {
        0 => int_atom(eo),
        1 => int_atom(en),
        2 => int_atom(eo + 1),
        3 => int_atom(eo - 1),
        4 => int_atom(en + 1),
        5 => int_atom(en - 1),
        6 => nil(),
        7 => int_atom(1),
        8 => int_atom(1 << 32),
        9 => int_atom(1 << 63),
        10 => atom(&[0x00, 0xff, 0xff, 0xff, 0xff, 0xff, 0xff, 0xff, 0xff]), // u64::MAX
        11 => int_atom((u64::MAX - 151) as i128),
        12 => int_atom(-1),
        13 => {
            let mut b = vec![0u8, 0u8];
            b.extend(crate::tree::int_bytes(eo));
            atom(&b)
        } // non-canonical exact
        14 => atom(&[0x01, 0, 0, 0, 0, 0, 0, 0, 0]), // 2^64
        _ => cons(atom(&[1]), nil()),
    };
    quote(v)
}

pub fn guard_ctx(i: usize, guard: T) -> T {
    match i {
        0 => guard,
        1 => list(&[atom(&[4]), guard, quote(atom(&[7]))]),                                                   // (c G 7)
        2 => list(&[atom(&[4]), list(&[atom(&[14]), quote(atom(b"xy")), quote(atom(b"z"))]), guard]),       // (c (concat..) G)
        3 => list(&[atom(&[9]), guard, quote(nil())]),                                                        // (= G ()) : G inside a GC candidate
        4 => list(&[atom(&[11]), guard, list(&[atom(&[14]), quote(atom(&big_atom(600))), quote(atom(&big_atom(600)))])]), // (sha256 G (concat big big))
        _ => list(&[atom(&[4]), guard.clone(), guard]),                                                       // two guards in sequence
    }
}

/// P5 full: (softfork COST EXT (q . PROG) 1) in several contexts
pub fn p5_full() -> ProgSpace {
    let inner: Vec<(String, Vec<u8>)> = guard_inner_programs().into_iter().map(|(n, t)| (n, t.ser())).collect();
    let ni = inner.len() as u64;
    let total = ni * (GUARD_EXTS * GUARD_COSTS * GUARD_CTXS) as u64;
    // exact costs per inner program (computed once)
    let env = std_env();
    let exact: Vec<(Option<u64>, Option<u64>)> = inner
        .iter()
        .map(|(_, p)| {
            let t = tree::deser(p).unwrap().0;
            (standalone_cost(&t, &env, ClvmFlags::empty()), standalone_cost(&t, &env, ClvmFlags::NEW_COST_MODEL))
        })
        .collect();
    ProgSpace {
        name: format!("P5({} inner programs x {GUARD_EXTS} extensions x {GUARD_COSTS} declared costs x {GUARD_CTXS} contexts)", inner.len()),
        total,
        get: Box::new(move |i| {
            let mut r = i;
            let ctx = (r % GUARD_CTXS as u64) as usize;
            r /= GUARD_CTXS as u64;
            let ci = (r % GUARD_COSTS as u64) as usize;
            r /= GUARD_COSTS as u64;
            let ei = (r % GUARD_EXTS as u64) as usize;
            r /= GUARD_EXTS as u64;
            let ip = tree::deser(&inner[r as usize].1).unwrap().0;
            let (eo, en) = exact[r as usize];
            let guard = list(&[atom(&[36]), guard_cost(ci, eo, en), guard_ext(ei), quote(ip), atom(&[1])]);
            (guard_ctx(ctx, guard), std_env())
        }),
    }
}

/// GUARD-THEN-OP: an extension-gated operator (keccak256, opcode 62) used before, after and between softfork
/// guards, and after a nested guard has exited inside an outer one: whatever a guard enables must end with it.
pub fn p_guard_then_op() -> ProgSpace {
    let env = std_env();
    let k = parse_prog("(keccak256 (q . \"abc\"))");
    // declared cost = exact cost of the body, computed either with keccak256 available or with opcode 62 unknown
    let mk = |ext: u8, inner: &T, new: bool, keccak_known: bool| -> T {
        let mut f = if new { ClvmFlags::NEW_COST_MODEL } else { ClvmFlags::empty() };
        if keccak_known {
            f |= ClvmFlags::ENABLE_KECCAK_OPS_OUTSIDE_GUARD;
        }
        let c = with_loaded(inner, &env, Enc::Inline, |l| {
            let o = l.run_flags(f, 0);
            if o.ok { Some(o.cost) } else { None }
        })
        .map(|c| c + if new { 500 } else { 140 })
        .unwrap_or(1000);
        list(&[atom(&[36]), quote(int_atom(c as i128)), quote(if ext == 0 { nil() } else { atom(&[ext]) }), quote(inner.clone()), atom(&[1])])
    };
    let c2 = |a: T, b: T| list(&[atom(&[4]), a, b]);
    let mut progs: Vec<Vec<u8>> = vec![];
    for new in [false, true] {
        for known in [true, false] {
            for ext in [0u8, 1, 2] {
                let mut inners = vec![parse_prog("(q . 1)"), k.clone()];
                for e2 in [0u8, 1, 2] {
                    let nested = mk(e2, &k, new, known);
                    inners.push(nested.clone());
                    inners.push(c2(nested.clone(), k.clone()));
                    inners.push(c2(k.clone(), nested.clone()));
                }
                for inner in &inners {
                    let g = mk(ext, inner, new, known);
                    progs.push(c2(g.clone(), k.clone()).ser());
                    progs.push(c2(k.clone(), g.clone()).ser());
                    progs.push(c2(g.clone(), c2(k.clone(), g.clone())).ser());
                    progs.push(g.ser());
                }
            }
        }
    }
    progs.sort();
    progs.dedup();
    let total = progs.len() as u64;
    ProgSpace {
        name: format!("GUARD-THEN-OP({total} programs: keccak256 before/after/between/inside guards of extension 0,1,2, nested in guards of extension 0,1,2; declared costs with opcode 62 known and unknown)"),
        total,
        get: Box::new(move |i| (tree::deser(&progs[i as usize]).unwrap().0, std_env())),
    }
}

/// GUARD-ARGS: (softfork COST EXT (q . (q . 1)) 1) where COST and EXT range over every byte-level form of an
/// unsigned integer argument: {no prefix, 00, 0000, 0080, 00a0, 00ff, 80, ff, 7f, 01} x {minimal, 8-byte (4-byte)
/// zero-padded} encodings of the exact costs under both models (extensions 0, 1, 2). Exercises the width /
/// sign-byte / leading-zero rules of the unsigned-integer parser, with values that make the guard SUCCEED
/// whenever the high bytes are (wrongly) dropped.
pub fn p_guard_args() -> ProgSpace {
    let ip = parse_prog("(q . 1)");
    let env = std_env();
    let eo = standalone_cost(&ip, &env, ClvmFlags::empty()).unwrap() + 140;
    let en = standalone_cost(&ip, &env, ClvmFlags::NEW_COST_MODEL).unwrap() + 500;
    let prefixes: Vec<Vec<u8>> = vec![vec![], vec![0], vec![0, 0], vec![0, 0x80], vec![0, 0xa0], vec![0, 0xff], vec![0x80], vec![0xff], vec![0x7f], vec![1]];
    let mut costs: Vec<Vec<u8>> = vec![];
    for c in [eo, en] {
        for body in [crate::tree::int_bytes(c as i128), c.to_be_bytes().to_vec()] {
            for p in &prefixes {
                let mut b = p.clone();
                b.extend_from_slice(&body);
                costs.push(b);
            }
        }
    }
    let mut exts: Vec<Vec<u8>> = vec![];
    for body in [vec![], vec![0u8, 0, 0, 0], vec![0, 0, 0, 1], vec![1], vec![0, 0, 0, 2]] {
        for p in &prefixes {
            let mut b = p.clone();
            b.extend_from_slice(&body);
            exts.push(b);
        }
    }
    costs.sort();
    costs.dedup();
    exts.sort();
    exts.dedup();
    let (nc, ne) = (costs.len() as u64, exts.len() as u64);
    let ips = ip.ser();
    ProgSpace {
        name: format!("GUARD-ARGS({nc} declared-cost atoms x {ne} extension atoms)"),
        total: nc * ne,
        get: Box::new(move |i| {
            let c = &costs[(i / ne) as usize];
            let e = &exts[(i % ne) as usize];
            let ip = tree::deser(&ips).unwrap().0;
            (list(&[atom(&[36]), quote(atom(c)), quote(atom(e)), quote(ip), atom(&[1])]), std_env())
        }),
    }
}

// ---------------------------------------------------------------------
// GC space: every GC-candidate operator over inner expressions that allocate
pub fn gc_candidates() -> Vec<u8> {
    vec![2, 7, 9, 10, 11, 13, 16, 17, 18, 19, 20, 21, 22, 23, 24, 25, 26, 27, 29, 30, 32, 33, 34, 48, 49, 50, 51, 56, 58, 59, 60, 61, 62, 63]
}
pub fn gc_env() -> T {
    // (BIG600 SMALL BIG2000 . "tail")
    crate::tree::list_t(&[atom(&big_atom(600)), atom(&[0x07]), atom(&big_atom(2000))], atom(b"tail"))
}
pub fn gc_inner() -> Vec<T> {
    [
        "(concat 2 2)",                       // 1200 new bytes
        "(substr 2 (q . 1) (q . 40))",        // view into the environment
        "(substr (concat 2 2) (q . 3) (q . 30))", // view into new bytes
        "(sha256 2)",                         // 32 new bytes
        "(c 2 (concat 2 2))",                 // pair + garbage
        "(q . 1)",
        "5",
        "(concat 2 (q . 1))",                 // 601 bytes
        "(strlen (concat 2 2 2))",            // garbage then small
        "(concat)",
        "(concat 11 (q . 0x00))",             // 2001 bytes
        "(substr 2 (q . 1) (q . 3))",         // 2-byte view into old bytes that is a canonical small integer
        "(substr 2 (q . 5) (q . 5))",         // empty view
        "(concat (q . 1) (q . 2))",           // new 2-byte atom with a canonical small value
        "(pubkey_for_exp (strlen (concat 2 2)))",
    ]
    .iter()
    .map(|s| parse_prog(s))
    .collect()
}
pub fn p_gc() -> ProgSpace {
    let outer = gc_candidates();
    let inner: Vec<Vec<u8>> = gc_inner().iter().map(|t| t.ser()).collect();
    let k = inner.len() as u64;
    let per = k + k * k;
    // opcode 2 (apply) gets its own shapes: (a (q . INNER) 1) and (a (q . (c INNER INNER)) 1)
    let total = outer.len() as u64 * per;
    ProgSpace {
        name: format!("GC({} candidate operators x {} inner expressions, arity 1-2)", outer.len(), inner.len()),
        total,
        get: Box::new(move |i| {
            let op = outer[(i / per) as usize];
            let r = i % per;
            let get = |j: u64| tree::deser(&inner[j as usize]).unwrap().0;
            let args: Vec<T> = if r < k { vec![get(r)] } else { vec![get((r - k) / k), get((r - k) % k)] };
            let p = if op == 2 {
                if args.len() == 1 {
                    // (a (q . X) 1)
                    list(&[atom(&[2]), quote(args[0].clone()), atom(&[1])])
                } else {
                    // (a (q . X) (c 2 Y)): X is the return value, Y is garbage produced while building the environment
                    list(&[atom(&[2]), quote(args[0].clone()), list(&[atom(&[4]), atom(&[2]), args[1].clone()])])
                }
            } else {
                cons(atom(&[op]), list(&args))
            };
            (p, gc_env())
        }),
    }
}

/// GC-after family: a value V that survived a value-preserving restore (`(a (q . 2) (c X Y))` — X is returned,
/// Y is >= 1 KiB of garbage) is then CONSUMED by an operator whose accounting may depend on V's representation
/// (the restore re-creates small-valued heap atoms as in-place atoms).
pub fn p_gc_after() -> ProgSpace {
    let xs = [
        "(concat (q . 1) (q . 0x00ff))",
        "(concat (q . 1) (q . 2))",
        "(concat (q . 0x00) (q . 0x80))",
        "(concat (q . 0x7f) (q . 0x00) (q . 0x00))",
        "(concat (q . 3) (q . 0xffffff))",
        "(concat (q . 4) (q . 0x000000))",
        "(substr (concat 2 2) (q . 0) (q . 2))",
        "(sha256 2)",
        "(concat 5 5)",
    ];
    let mut consumers: Vec<String> = vec![];
    for s in 0..=4 {
        for e in s..=4 {
            consumers.push(format!("(substr V (q . {s}) (q . {e}))"));
        }
        consumers.push(format!("(substr V (q . {s}))"));
    }
    for c in ["(concat V V)", "(concat V (q . 1))", "(sha256 V)", "(strlen V)", "(+ V (q . 1))", "(c V V)", "(= V V)", "(logand V V)", "(concat (substr V (q . 1) (q . 2)) V)"] {
        consumers.push(c.to_string());
    }
    let mut progs: Vec<Vec<u8>> = vec![];
    for x in xs {
        let v = format!("(a (q . 2) (c {x} (concat 2 2)))");
        for c in &consumers {
            progs.push(parse_prog(&c.replace('V', &v)).ser());
        }
    }
    let total = progs.len() as u64;
    ProgSpace {
        name: format!("GC-after({} survivors x {} consumers)", xs.len(), consumers.len()),
        total,
        get: Box::new(move |i| (tree::deser(&progs[i as usize]).unwrap().0, gc_env())),
    }
}

// ---------------------------------------------------------------------
// P1b: operators over big operands reached through environment paths
pub fn big_env() -> T {
    // 2 -> 600-byte positive int, 5 -> 7, 11 -> 43-byte int, 23 -> 129-byte negative int
    let mut neg = big_atom(129);
    neg[0] = 0x9c;
    list(&[atom(&big_atom(600)), atom(&[7]), atom(&big_atom(43)), atom(&neg)])
}
pub fn p1b(ops: Vec<Vec<u8>>, max_arity: usize) -> ProgSpace {
    let choices: Vec<Vec<u8>> = vec![atom(&[2]).ser(), atom(&[5]).ser(), atom(&[11]).ser(), atom(&[23]).ser(), quote(atom(&[0x7f, 0xff])).ser(), quote(atom(&[0xff])).ser(), quote(atom(&[0x01, 0x86, 0xa0])).ser()];
    let k = choices.len() as u64;
    let per_op: u64 = (1..=max_arity).map(|a| k.pow(a as u32)).sum();
    let total = ops.len() as u64 * per_op;
    ProgSpace {
        name: format!("P1b(big operands, arity<={max_arity})"),
        total,
        get: Box::new(move |i| {
            let op = &ops[(i / per_op) as usize];
            let mut r = i % per_op;
            let mut arity = 1;
            loop {
                let c = k.pow(arity as u32);
                if r < c {
                    break;
                }
                r -= c;
                arity += 1;
            }
            let mut args = vec![];
            for _ in 0..arity {
                args.push(tree::deser(&choices[(r % k) as usize]).unwrap().0);
                r /= k;
            }
            (cons(atom(op), list(&args)), big_env())
        }),
    }
}

/// path family: a path atom as the whole program against deep environments
pub fn p_paths(depth: usize) -> ProgSpace {
    let kmax = depth as u64 + 3;
    // (env kind, walk kind, k, zero padding)
    let total = 2 * 4 * (kmax + 1) * 3;
    ProgSpace {
        name: format!("PATHS(depth {depth})"),
        total,
        get: Box::new(move |i| {
            let mut r = i;
            let pad = r % 3;
            r /= 3;
            let k = r % (kmax + 1);
            r /= kmax + 1;
            let walk = r % 4;
            r /= 4;
            let envk = r;
            // environment: right-deep list (a1 a2 ... aD) or left-deep (((.. . aD) . a2) . a1)
            let mut env = atom(b"end");
            for j in (0..depth).rev() {
                let leaf = atom(&[0x80 | (j % 100) as u8, j as u8]);
                env = if envk == 0 { cons(leaf, env) } else { cons(env, leaf) };
            }
            // walk: 0 = R^k, 1 = R^k F, 2 = F^k, 3 = F^k R ; bits from the least significant end
            let one: num_bigint::BigUint = 1u32.into();
            let v: num_bigint::BigUint = match walk {
                0 => (&one << (k + 1)) - &one,
                1 => (&one << (k + 1)) + (&one << k) - &one,
                2 => &one << k,
                _ => (&one << (k + 1)) | (&one << k),
            };
            let mut b = v.to_bytes_be();
            if b[0] & 0x80 != 0 && pad == 0 {
                // keep the atom as given (a "negative" looking path is still a path)
            }
            for _ in 0..pad {
                b.insert(0, 0);
            }
            (atom(&b), env)
        }),
    }
}

/// PV: operator applications whose argument lists come from the repository's own vectors
pub fn p_vectors(per_group: usize) -> ProgSpace {
    use std::collections::BTreeMap;
    let files = [
        "test-bls-ops.txt", "test-blspy-g1.txt", "test-blspy-g2.txt", "test-blspy-hash.txt", "test-blspy-pairing.txt", "test-blspy-verify.txt",
        "test-bls-zk.txt", "test-secp-verify.txt", "test-secp256k1.txt", "test-secp256r1.txt", "test-keccak256.txt", "test-sha256tree.txt",
        "test-modpow.txt", "test-more-ops.txt", "test-core-ops.txt", "test-sha256.txt",
    ];
    let mut groups: BTreeMap<(String, String, bool), usize> = BTreeMap::new();
    let mut progs: Vec<Vec<u8>> = vec![];
    for f in files {
        for v in crate::vectors::load(f) {
            let key = (f.to_string(), v.opname.clone(), v.expect.is_some());
            let n = groups.entry(key).or_insert(0);
            if *n >= per_group {
                continue;
            }
            *n += 1;
            progs.push(quoted_call(&v.op, &v.args).ser());
        }
    }
    // explicit corner: bls_verify with only the identity signature
    let mut inf = vec![0u8; 96];
    inf[0] = 0xc0;
    progs.push(list(&[atom(&[59]), quote(atom(&inf))]).ser());
    progs.push(list(&[atom(&[58])]).ser());
    let total = progs.len() as u64;
    ProgSpace { name: format!("PV({} programs from op-tests vectors)", progs.len()), total, get: Box::new(move |i| (tree::deser(&progs[i as usize]).unwrap().0, nil())) }
}

/// PV-MUT: one succeeding op-tests vector per (file, operator); every single-argument mutation of it: argument i
/// replaced by each atom of A12, a pair, a 300-byte atom and a 32-byte atom; argument i dropped; one extra argument.
/// Reaches the validation code behind the first well-typed arguments of every operator (coinid amount, secp
/// signature, BLS points and scalars ...).
pub fn p_vector_mutations() -> ProgSpace {
    use std::collections::BTreeSet;
    let files = [
        "test-bls-ops.txt", "test-blspy-g1.txt", "test-blspy-g2.txt", "test-blspy-hash.txt", "test-blspy-pairing.txt", "test-blspy-verify.txt",
        "test-bls-zk.txt", "test-secp-verify.txt", "test-secp256k1.txt", "test-secp256r1.txt", "test-keccak256.txt", "test-sha256tree.txt",
        "test-modpow.txt", "test-more-ops.txt", "test-core-ops.txt", "test-sha256.txt",
    ];
    let mut repl: Vec<T> = atoms_t(&a12());
    repl.push(cons(atom(&[1]), atom(&[2])));
    repl.push(atom(&big_atom(300)));
    repl.push(atom(&big_atom(32)));
    let mut seen: BTreeSet<(String, String, usize)> = BTreeSet::new();
    let mut progs: BTreeSet<Vec<u8>> = BTreeSet::new();
    for f in files {
        for v in crate::vectors::load(f) {
            if v.expect.is_none() {
                continue;
            }
            let mut items = vec![];
            let mut cur = v.args.clone();
            while let T::P(a, b) = &cur {
                items.push((**a).clone());
                let n = (**b).clone();
                cur = n;
            }
            // one vector per (file, operator, arity)
            if items.is_empty() || items.len() > 6 || !seen.insert((f.to_string(), v.opname.clone(), items.len())) {
                continue;
            }
            for i in 0..items.len() {
                for r in &repl {
                    let mut m = items.clone();
                    m[i] = r.clone();
                    progs.insert(quoted_call(&v.op, &list(&m)).ser());
                }
                let mut m = items.clone();
                m.remove(i);
                progs.insert(quoted_call(&v.op, &list(&m)).ser());
            }
            let mut m = items.clone();
            m.push(atom(&[1]));
            progs.insert(quoted_call(&v.op, &list(&m)).ser());
        }
    }
    let progs: Vec<Vec<u8>> = progs.into_iter().collect();
    let total = progs.len() as u64;
    ProgSpace { name: format!("PV-MUT({total} single-argument mutations of succeeding op-tests vectors)"), total, get: Box::new(move |i| (tree::deser(&progs[i as usize]).unwrap().0, nil())) }
}

// ---------------------------------------------------------------------
// operand-size limit space: arithmetic operators over operands just below / at / above 256, 1024, 2048 bytes
pub fn p_limits(thorough: bool) -> ProgSpace {
    let sizes: Vec<usize> = if thorough { vec![255, 256, 257, 1023, 1024, 1025, 2047, 2048, 2049] } else { vec![256, 257, 1024, 1025, 2048, 2049] };
    let mut consts: Vec<Vec<u8>> = vec![vec![3], vec![0xfb], vec![0x00, 0x03]];
    for s in &sizes {
        consts.push(big_atom(*s));
    }
    // atoms whose length is just over a limit but whose magnitude is not: a 0x00 sign byte, redundant
    // leading zeros, and the negative form ff 7f ..
    for s in [257usize, 1025, 2049] {
        let mut z = vec![0xffu8; s];
        z[0] = 0x00;
        consts.push(z);
        let mut n = vec![0xffu8; s];
        n[1] = 0x7f;
        consts.push(n);
        if thorough {
            let mut zz = big_atom(s);
            zz[0] = 0;
            zz[1] = 0;
            consts.push(zz);
        }
    }
    let g1 = g1_gen();
    let g2 = g2_gen();
    // (opcode, arity, first-arg override)
    let ops: Vec<(u8, usize, Option<Vec<u8>>)> = vec![(18, 2, None), (18, 3, None), (19, 2, None), (20, 2, None), (61, 2, None), (60, 3, None), (50, 2, Some(g1)), (54, 2, Some(g2)), (16, 2, None), (24, 2, None), (22, 2, None)];
    // three-operand operators draw from a reduced constant list in the quick tier (cubic blow-up)
    let k_full = consts.len() as u64;
    let reduced: Vec<usize> = if thorough { (0..consts.len()).collect() } else { (0..consts.len()).filter(|i| *i < 3 || consts[*i].len() == 257 || consts[*i].len() == 1025 || (consts[*i].len() == 256 && consts[*i][0] == 0x5a)).collect() };
    let k_red = reduced.len() as u64;
    let mut offsets = vec![0u64];
    for (_, ar, ov) in &ops {
        let free = if ov.is_some() { ar - 1 } else { *ar };
        let k = if free >= 3 || ov.is_some() { k_red } else { k_full };
        offsets.push(offsets.last().unwrap() + k.pow(free as u32));
    }
    let total = *offsets.last().unwrap();
    ProgSpace {
        name: format!("LIMITS(operand sizes {sizes:?})"),
        total,
        get: Box::new(move |i| {
            let mut oi = 0;
            while offsets[oi + 1] <= i {
                oi += 1;
            }
            let (op, ar, ov) = &ops[oi];
            let mut r = i - offsets[oi];
            let mut args = vec![];
            if let Some(first) = ov {
                args.push(quote(atom(first)));
            }
            let free = if ov.is_some() { ar - 1 } else { *ar };
            let use_red = free >= 3 || ov.is_some();
            let k = if use_red { k_red } else { k_full };
            while args.len() < *ar {
                let ci = (r % k) as usize;
                let mut c = if use_red { consts[reduced[ci]].clone() } else { consts[ci].clone() };
                r /= k;
                // modpow exponents are kept <= 257 bytes (run time), shifts small
                if *op == 60 && args.len() == 1 && c.len() > 257 {
                    c.truncate(257);
                }
                if *op == 22 && args.len() == 1 {
                    c.truncate(1);
                }
                args.push(quote(atom(&c)));
            }
            if *op == 60 {
                // run-time guard: a long exponent only together with base and modulus of at most 257 bytes
                let raw: Vec<Vec<u8>> = args.iter().map(|a| match a { T::P(_, v) => v.bytes().unwrap().to_vec(), _ => vec![] }).collect();
                if raw[1].len() > 3 {
                    args = raw.iter().map(|b| quote(atom(&b[..b.len().min(257)]))).collect();
                }
            }
            (cons(atom(&[*op]), list(&args)), nil())
        }),
    }
}

/// P5 thinned for the expensive flag-lattice check: contexts {bare, after an allocation, two guards},
/// declared costs {exact old, exact new, exact+1, nil, u64::MAX, non-canonical exact}, all extensions
pub fn p5_thin() -> ProgSpace {
    let full = p5_full();
    let ctxs = [0usize, 2, 5];
    let costs = [0usize, 1, 2, 6, 10, 13];
    let ni = full.total / (GUARD_EXTS * GUARD_COSTS * GUARD_CTXS) as u64;
    let total = ni * (GUARD_EXTS * costs.len() * ctxs.len()) as u64;
    ProgSpace {
        name: format!("P5thin({} inner programs x {GUARD_EXTS} extensions x {} declared costs x {} contexts)", ni, costs.len(), ctxs.len()),
        total,
        get: Box::new(move |i| {
            let mut r = i;
            let ctx = ctxs[(r % ctxs.len() as u64) as usize];
            r /= ctxs.len() as u64;
            let ci = costs[(r % costs.len() as u64) as usize];
            r /= costs.len() as u64;
            let ei = (r % GUARD_EXTS as u64) as usize;
            r /= GUARD_EXTS as u64;
            let idx = ((r as usize * GUARD_EXTS + ei) * GUARD_COSTS + ci) * GUARD_CTXS + ctx;
            full.at(idx as u64)
        }),
    }
}
