// Reference CLVM interpreter: transcription of the historical Python `clvm` package
// (run_program.py, core_ops.py, more_ops.py, costs.py), classic operator set, no BLS.
use num_bigint::{BigInt, BigUint, Sign};
use num_integer::Integer;
use num_traits::{Signed, Zero, ToPrimitive};
use crate::tree::{T, atom, cons, nil};
pub type R<X> = Result<X, String>;
fn one() -> T { atom(&[1]) }
trait TExt { fn nullp(&self) -> bool; fn listp(&self) -> bool; fn first(&self) -> R<T>; fn rest(&self) -> R<T>; }
impl TExt for T {
    fn nullp(&self) -> bool { self.is_nil() }
    fn listp(&self) -> bool { self.is_pair() }
    fn first(&self) -> R<T> { match self { T::P(a, _) => Ok((**a).clone()), _ => Err("first of non-cons".into()) } }
    fn rest(&self) -> R<T> { match self { T::P(_, b) => Ok((**b).clone()), _ => Err("rest of non-cons".into()) } }
}

pub fn int_from_bytes(b: &[u8]) -> BigInt { if b.is_empty() { BigInt::zero() } else { BigInt::from_signed_bytes_be(b) } }
pub fn int_to_bytes(v: &BigInt) -> Vec<u8> {
    if v.is_zero() { return vec![]; }
    let mut r = v.to_signed_bytes_be();
    while r.len() > 1 && r[0] == (if r[1] & 0x80 != 0 { 0xff } else { 0 }) { r.remove(0); }
    r
}
fn limbs(v: &BigInt) -> u64 { (v.bits() + 7) >> 3 }

#[derive(Clone, Copy, Default)]
pub struct Adapters { pub floor_div: bool, pub ignore_arg_terminator: bool, pub ignore_inner_terminator: bool, pub softfork_guard: bool }
pub struct Used { pub floor_div: u64, pub arg_term: u64, pub inner_term: u64, pub softfork: u64 }

pub struct Vm { pub ad: Adapters, pub used: Used, pub cost: u128, pub max_cost: u128, pub depth: usize, pub guard_depth: usize }

const MALLOC: u128 = 10;
impl Vm {
    pub fn new(ad: Adapters, max_cost: u64) -> Vm { Vm { ad, used: Used { floor_div: 0, arg_term: 0, inner_term: 0, softfork: 0 }, cost: 0, max_cost: if max_cost == 0 { u64::MAX as u128 } else { max_cost as u128 }, depth: 0, guard_depth: 0 } }
    fn charge(&mut self, c: u128) -> R<()> { self.cost += c; if self.cost > self.max_cost { Err("cost exceeded".into()) } else { Ok(()) } }

    // iterate an argument list the way Python's as_iter does (raises on a non-nil terminator) unless adapted
    fn as_iter(&mut self, args: &T) -> R<Vec<T>> {
        let mut v = vec![]; let mut cur = args.clone();
        loop { match &cur { T::P(a, b) => { v.push((**a).clone()); let n = (**b).clone(); cur = n; } T::A(b) => { if !b.is_empty() { if self.ad.ignore_arg_terminator { self.used.arg_term += 1; } else { return Err("first of non-cons".into()); } } break; } } }
        Ok(v)
    }
    fn list_len(args: &T) -> usize { let mut n = 0; let mut cur = args; while let T::P(_, b) = cur { n += 1; cur = b; } n }

    fn traverse_path(&mut self, path: &[u8], env: &T) -> R<T> {
        let mut cost: u128 = 40 + 4;
        if path.is_empty() { self.charge(cost)?; return Ok(nil()); }
        let mut end = 0; while end < path.len() && path[end] == 0 { end += 1; }
        cost += end as u128 * 4;
        if end == path.len() { self.charge(cost)?; return Ok(nil()); }
        let mut m = path[end]; let mut end_mask: u32 = 0x80; while (m as u32 & end_mask) == 0 { end_mask >>= 1; } m = 0; let _ = m;
        let mut byte_cursor = path.len() - 1; let mut bitmask: u32 = 1; let mut env = env.clone();
        while byte_cursor > end || bitmask < end_mask {
            let (l, r) = match &env { T::P(l, r) => ((**l).clone(), (**r).clone()), _ => return Err("path into atom".into()) };
            env = if path[byte_cursor] as u32 & bitmask != 0 { r } else { l };
            cost += 4; bitmask <<= 1; if bitmask == 0x100 { byte_cursor -= 1; bitmask = 1; }
        }
        self.charge(cost)?; Ok(env)
    }

    pub fn eval(&mut self, prog: &T, env: &T) -> R<T> {
        self.depth += 1; if self.depth > 2000 { return Err("refvm depth".into()); }
        let r = self.eval_inner(prog, env); self.depth -= 1; r
    }
    fn eval_inner(&mut self, prog: &T, env: &T) -> R<T> {
        let (op, operands) = match prog { T::A(b) => return self.traverse_path(b, env), T::P(a, b) => ((**a).clone(), (**b).clone()) };
        if let T::P(new_op, must_be_nil) = &op {
            let bad_term = !matches!(&**must_be_nil, T::A(b) if b.is_empty());
            if new_op.listp() { return Err("in ((X)...) syntax X must be lone atom".into()); }
            if bad_term {
                // python: error. clvm_rs get_args::<1> ignores a non-nil *atom* terminator, but a pair means 2+ elements -> error
                if must_be_nil.listp() { return Err("in ((X)...) syntax X must be lone atom".into()); }
                if self.ad.ignore_inner_terminator { self.used.inner_term += 1; } else { return Err("in ((X)...) syntax X must be lone atom".into()); }
            }
            self.charge(90)?;
            return self.apply(&(**new_op).clone(), &operands);
        }
        let opb = op.bytes().unwrap().to_vec();
        if opb == [1] { self.charge(20)?; return Ok(operands); }
        // evaluate operands
        let mut vals = vec![]; let mut cur = operands.clone();
        loop { match &cur { T::P(a, b) => { let a = (**a).clone(); let b = (**b).clone(); vals.push(a); cur = b; } T::A(b) => { if !b.is_empty() { return Err("bad operand list terminator".into()); } break; } } }
        self.charge(1)?;
        // python evaluates operands from first to last? (it pushes all, evaluates in stack order: last operand first)
        let mut evaluated: Vec<T> = Vec::with_capacity(vals.len());
        for v in vals.iter().rev() { let r = self.eval(v, env)?; evaluated.push(r); }
        let mut list = nil(); for v in evaluated.into_iter() { list = cons(v, list); }
        self.apply(&op, &list)
    }
    fn apply(&mut self, op: &T, args: &T) -> R<T> {
        let opb = match op { T::A(b) => b.to_vec(), _ => return Err("internal error".into()) };
        if opb == [2] {
            if Self::list_len(args) != 2 { return Err("apply requires exactly 2 parameters".into()); }
            let p = args.first()?; let e = args.rest()?.first()?;
            self.charge(90)?;
            return self.eval(&p, &e);
        }
        if opb == [36] && self.ad.softfork_guard { return self.softfork(args); }
        let (c, r) = self.operator(&opb, args)?;
        self.charge(c)?; Ok(r)
    }
    /// named adapter `softfork_guard`: the guard semantics of clvm_rs in consensus mode under the
    /// pre-hard-fork cost model (declared cost parsed as u64, extension as u32, guard program run under
    /// the declared cost, exact cost equality at exit, nil result; malformed guards cost the declared amount)
    fn uint_arg(t: &T, size: usize) -> R<u64> {
        let b = match t.bytes() { Some(b) => b, None => return Err("softfork requires int arg".into()) };
        if b.is_empty() { return Ok(0); }
        if b[0] & 0x80 != 0 { return Err("softfork requires positive int arg".into()); }
        let mut i = 0; while i < b.len() && b[i] == 0 { i += 1; }
        let b = &b[i..];
        if b.len() > size { return Err("softfork requires smaller int arg".into()); }
        let mut v = 0u64; for x in b { v = (v << 8) | *x as u64; } Ok(v)
    }
    fn softfork(&mut self, args: &T) -> R<T> {
        self.used.softfork += 1;
        let a0 = args.first()?;
        let declared = Self::uint_arg(&a0, 8)? as u128;
        let remaining = self.max_cost - self.cost;
        if declared > remaining || declared == 0 { return Err("cost exceeded".into()); }
        // exactly four arguments, any atom terminates the list
        let mut items = vec![]; let mut cur = args.clone();
        while let T::P(a, b) = &cur { items.push((**a).clone()); let n = (**b).clone(); cur = n; }
        let parsed = if items.len() == 4 { match Self::uint_arg(&items[1], 4) { Ok(e) if (e as u32) <= 1 => Some((items[2].clone(), items[3].clone())), _ => None } } else { None };
        match parsed {
            None => { self.charge(declared)?; Ok(nil()) }
            Some((prog, env)) => {
                let start = self.cost; let saved = self.max_cost;
                self.max_cost = start + declared;
                self.guard_depth += 1;
                let r = (|| -> R<()> { self.eval(&prog, &env)?; self.charge(140)?; Ok(()) })();
                self.guard_depth -= 1;
                self.max_cost = saved;
                r?;
                if self.cost != start + declared { return Err("softfork specified cost mismatch".into()); }
                Ok(nil())
            }
        }
    }
    fn ints(&mut self, name: &str, args: &T) -> R<Vec<(BigInt, u128)>> { let mut v = vec![]; for a in self.as_iter(args)? { match a.bytes() { Some(b) => v.push((int_from_bytes(b), b.len() as u128)), None => return Err(format!("{name} requires int args")) } } Ok(v) }
    fn int_list(&mut self, name: &str, args: &T, n: usize) -> R<Vec<(BigInt, u128)>> { let v = self.ints(name, args)?; if v.len() != n { return Err(format!("{name} takes exactly {n} arguments")); } Ok(v) }
    fn malloc(cost: u128, v: Vec<u8>) -> (u128, T) { (cost + v.len() as u128 * MALLOC, atom(&v)) }
    fn to_int(v: &BigInt) -> Vec<u8> { int_to_bytes(v) }
    fn tf(b: bool) -> T { if b { one() } else { nil() } }

    pub fn operator(&mut self, op: &[u8], args: &T) -> R<(u128, T)> {
        if op.len() != 1 { return self.unknown(op, args); }
        match op[0] {
            3 => { if Self::list_len(args) != 3 { return Err("i takes exactly 3 arguments".into()); } let r = args.rest()?; if args.first()?.nullp() { Ok((33, r.rest()?.first()?)) } else { Ok((33, r.first()?)) } }
            4 => { if Self::list_len(args) != 2 { return Err("c takes exactly 2 arguments".into()); } Ok((50, cons(args.first()?, args.rest()?.first()?))) }
            5 => { if Self::list_len(args) != 1 { return Err("f takes exactly 1 argument".into()); } Ok((30, args.first()?.first()?)) }
            6 => { if Self::list_len(args) != 1 { return Err("r takes exactly 1 argument".into()); } Ok((30, args.first()?.rest()?)) }
            7 => { if Self::list_len(args) != 1 { return Err("l takes exactly 1 argument".into()); } Ok((19, Self::tf(args.first()?.listp()))) }
            8 => Err("clvm raise".into()),
            9 => { if Self::list_len(args) != 2 { return Err("= takes exactly 2 arguments".into()); } let a0 = args.first()?; let a1 = args.rest()?.first()?; let (b0, b1) = match (a0.bytes(), a1.bytes()) { (Some(x), Some(y)) => (x.to_vec(), y.to_vec()), _ => return Err("= on list".into()) }; Ok((117 + (b0.len() + b1.len()) as u128, Self::tf(b0 == b1))) }
            10 => { let l = self.as_iter(args)?; if l.len() != 2 { return Err(">s takes exactly 2 arguments".into()); } let (b0, b1) = match (l[0].bytes(), l[1].bytes()) { (Some(x), Some(y)) => (x.to_vec(), y.to_vec()), _ => return Err(">s on list".into()) }; Ok((117 + (b0.len() + b1.len()) as u128, Self::tf(b0 > b1))) }
            11 => { let mut cost = 87u128; let mut len = 0u128; let mut data = vec![]; for a in self.as_iter(args)? { match a.bytes() { Some(b) => { len += b.len() as u128; cost += 134; data.extend_from_slice(b); } None => return Err("sha256 on list".into()) } } cost += len * 2; Ok(Self::malloc(cost, crate::refsha::sha256(&data).to_vec())) }
            12 => { let n = Self::list_len(args); if n != 2 && n != 3 { return Err("substr takes exactly 2 or 3 arguments".into()); } let a0 = args.first()?; let s0 = match a0.bytes() { Some(b) => b.to_vec(), None => return Err("substr on list".into()) };
                    let rest = self.as_iter(&args.rest()?)?; let mut idx = vec![]; for a in &rest { match a.bytes() { Some(b) => { if b.len() > 4 { return Err("substr requires int32 args (with no leading zeros)".into()); } idx.push(int_from_bytes(b)); } None => return Err("substr requires int32 args".into()) } }
                    let i1 = idx[0].clone(); let i2 = if n == 2 { BigInt::from(s0.len()) } else { idx[1].clone() };
                    if i2 > BigInt::from(s0.len()) || i2 < i1 || i2.is_negative() || i1.is_negative() { return Err("invalid indices for substr".into()); }
                    Ok((1, atom(&s0[i1.to_usize().unwrap()..i2.to_usize().unwrap()]))) }
            13 => { if Self::list_len(args) != 1 { return Err("strlen takes exactly 1 argument".into()); } let a0 = args.first()?; let n = match a0.bytes() { Some(b) => b.len(), None => return Err("strlen on list".into()) }; Ok(Self::malloc(173 + n as u128, Self::to_int(&BigInt::from(n)))) }
            14 => { let mut cost = 142u128; let mut s = vec![]; for a in self.as_iter(args)? { match a.bytes() { Some(b) => { s.extend_from_slice(b); cost += 135; } None => return Err("concat on list".into()) } } cost += s.len() as u128 * 3; Ok(Self::malloc(cost, s)) }
            16 => { let mut total = BigInt::zero(); let mut cost = 99u128; let mut sz = 0u128; for (r, l) in self.ints("+", args)? { total += r; sz += l; cost += 320; } cost += sz * 3; Ok(Self::malloc(cost, Self::to_int(&total))) }
            17 => { let mut cost = 99u128; if args.nullp() { return Ok(Self::malloc(cost, vec![])); } let mut sign = 1; let mut total = BigInt::zero(); let mut sz = 0u128; for (r, l) in self.ints("-", args)? { if sign == 1 { total += r } else { total -= r }; sign = -1; sz += l; cost += 320; } cost += sz * 3; Ok(Self::malloc(cost, Self::to_int(&total))) }
            18 => { let mut cost = 92u128; let ops = self.ints("*", args)?; if ops.is_empty() { return Ok(Self::malloc(cost, vec![1])); } let (mut v, mut vs) = ops[0].clone(); for (r, rs) in &ops[1..] { cost += 885; cost += (rs + vs) * 6; cost += (rs * vs) / 128; v = v * r; vs = limbs(&v) as u128; } Ok(Self::malloc(cost, Self::to_int(&v))) }
            19 => { let l = self.int_list("/", args, 2)?; let mut cost = 988u128; if l[1].0.is_zero() { return Err("div with 0".into()); } cost += (l[0].1 + l[1].1) * 4; let (mut q, r) = l[0].0.div_mod_floor(&l[1].0);
                    if q == BigInt::from(-1) && !r.is_zero() { if self.ad.floor_div { self.used.floor_div += 1; } else { q += 1; } }
                    Ok(Self::malloc(cost, Self::to_int(&q))) }
            20 => { let l = self.int_list("divmod", args, 2)?; let mut cost = 1116u128; if l[1].0.is_zero() { return Err("divmod with 0".into()); } cost += (l[0].1 + l[1].1) * 6; let (q, r) = l[0].0.div_mod_floor(&l[1].0); let qb = Self::to_int(&q); let rb = Self::to_int(&r); cost += (qb.len() + rb.len()) as u128 * MALLOC; Ok((cost, cons(atom(&qb), atom(&rb)))) }
            21 => { let l = self.int_list(">", args, 2)?; Ok((498 + (l[0].1 + l[1].1) * 2, Self::tf(l[0].0 > l[1].0))) }
            22 | 23 => { let name = if op[0] == 22 { "ash" } else { "lsh" }; let l = self.int_list(name, args, 2)?; if l[1].1 > 4 { return Err(format!("{name} requires int32 args (with no leading zeros)")); } if l[1].0.abs() > BigInt::from(65535) { return Err("shift too large".into()); }
                    let i0 = if op[0] == 22 { l[0].0.clone() } else { BigInt::from_biguint(Sign::Plus, BigUint::from_bytes_be(args.first()?.bytes().unwrap())) };
                    let sh = l[1].0.to_i64().unwrap(); let r = if sh >= 0 { i0 << (sh as usize) } else { i0 >> ((-sh) as usize) };
                    let (base, per) = if op[0] == 22 { (596u128, 3u128) } else { (277, 3) }; let cost = base + (l[0].1 + limbs(&r) as u128) * per; Ok(Self::malloc(cost, Self::to_int(&r))) }
            24 | 25 | 26 => { let mut total = if op[0] == 24 { BigInt::from(-1) } else { BigInt::zero() }; let mut cost = 100u128; let mut sz = 0u128; let name = ["logand", "logior", "logxor"][(op[0] - 24) as usize];
                    for (r, l) in self.ints(name, args)? { total = match op[0] { 24 => total & r, 25 => total | r, _ => total ^ r }; sz += l; cost += 264; } cost += sz * 3; Ok(Self::malloc(cost, Self::to_int(&total))) }
            27 => { let l = self.int_list("lognot", args, 1)?; let cost = 331 + l[0].1 * 3; Ok(Self::malloc(cost, Self::to_int(&!l[0].0.clone()))) }
            32 => { let l = self.as_iter(args)?; if l.len() != 1 { return Err("not takes exactly 1 argument".into()); } Ok((200, Self::tf(l[0].nullp()))) }
            33 => { let l = self.as_iter(args)?; let cost = 200 + 300 * l.len() as u128; Ok((cost, Self::tf(l.iter().any(|x| !x.nullp())))) }
            34 => { let l = self.as_iter(args)?; let cost = 200 + 300 * l.len() as u128; Ok((cost, Self::tf(l.iter().all(|x| !x.nullp())))) }
            36 => { if Self::list_len(args) < 1 { return Err("softfork takes at least 1 argument".into()); } let a = args.first()?; let b = match a.bytes() { Some(b) => b.to_vec(), None => return Err("softfork requires int args".into()) }; let c = int_from_bytes(&b); if c < BigInt::from(1) { return Err("cost must be > 0".into()); } match c.to_u128() { Some(c) => Ok((c, nil())), None => Err("cost too large".into()) } }
            _ => self.unknown(op, args),
        }
    }
    fn unknown(&mut self, op: &[u8], args: &T) -> R<(u128, T)> {
        if op.is_empty() || (op.len() >= 2 && op[0] == 0xff && op[1] == 0xff) { return Err("reserved operator".into()); }
        let cf = (op[op.len() - 1] & 0xc0) >> 6;
        if op.len() > 5 { return Err("invalid operator".into()); }
        let mut mult: u128 = 0; for b in &op[..op.len() - 1] { mult = (mult << 8) | *b as u128; } mult += 1;
        let lens = |vm: &mut Vm, args: &T| -> R<Vec<u128>> { let mut v = vec![]; for a in vm.as_iter(args)? { match a.bytes() { Some(b) => v.push(b.len() as u128), None => return Err("unknown op on list".into()) } } Ok(v) };
        let cost: u128 = match cf {
            0 => 1,
            1 => { let l = lens(self, args)?; 99 + l.len() as u128 * 320 + l.iter().sum::<u128>() * 3 }
            2 => { let l = lens(self, args)?; let mut c = 92u128; if !l.is_empty() { let mut vs = l[0]; for rs in &l[1..] { c += 885; c += (rs + vs) * 6; c += (rs * vs) / 128; vs += rs; } } c }
            _ => { let l = lens(self, args)?; 142 + l.len() as u128 * 135 + l.iter().sum::<u128>() * 3 }
        };
        let cost = cost * mult;
        if cost >= 1u128 << 32 { return Err("invalid operator".into()); }
        Ok((cost, nil()))
    }
}
