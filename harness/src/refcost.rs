// RefCost — every operator's cost as a pure function of its argument list under both cost models,
// written from docs/cost-model.md, docs/sha256tree.md and the documentation comments of the operators.
// Validated at start-up against the repository's v1 and v2 operator vectors.
use crate::refvm::{int_from_bytes, int_to_bytes};
use crate::tree::T;
use num_bigint::BigInt;
use num_integer::Integer;
use num_traits::{Signed, ToPrimitive, Zero};

const MALLOC: u128 = 10;

fn limbs(v: &BigInt) -> u128 {
    ((v.bits() + 7) / 8) as u128
}
fn items(args: &T) -> Vec<T> {
    let mut v = vec![];
    let mut cur = args.clone();
    while let T::P(a, b) = &cur {
        v.push((**a).clone());
        let n = (**b).clone();
        cur = n;
    }
    v
}
fn lens(it: &[T]) -> Option<Vec<u128>> {
    it.iter().map(|t| t.bytes().map(|b| b.len() as u128)).collect()
}
fn ints(it: &[T]) -> Option<Vec<(BigInt, u128)>> {
    it.iter().map(|t| t.bytes().map(|b| (int_from_bytes(b), b.len() as u128))).collect()
}
fn rlen(v: &BigInt) -> u128 {
    int_to_bytes(v).len() as u128
}

/// expected cost of a SUCCESSFUL call (None = the model does not define a cost, e.g. the call must fail)
pub fn ref_cost(op: u8, args: &T, new: bool) -> Option<u128> {
    let it = items(args);
    let n = it.len() as u128;
    Some(match op {
        3 => if new { 330 } else { 33 },
        4 => 50,
        5 | 6 => 30,
        7 => if new { 200 } else { 19 },
        9 | 10 => {
            let l = lens(&it)?;
            117 + l.iter().sum::<u128>()
        }
        11 => {
            let l = lens(&it)?;
            let (b, pa, pb) = if new { (1000, 160, 6) } else { (87, 134, 2) };
            b + n * pa + l.iter().sum::<u128>() * pb + 32 * MALLOC
        }
        12 => if new { 2000 } else { 1 },
        13 => {
            let l = lens(&it)?;
            173 + l[0] + MALLOC * rlen(&BigInt::from(l[0] as u64))
        }
        14 => {
            let l = lens(&it)?;
            let total: u128 = l.iter().sum();
            142 + 135 * n + 3 * total + MALLOC * total
        }
        16 | 17 => {
            let v = ints(&it)?;
            let mut acc = BigInt::zero();
            let mut c: u128 = 99;
            for (i, (x, l)) in v.iter().enumerate() {
                if new {
                    c += 500 + 4 * limbs(&acc).max(*l);
                } else {
                    c += 320 + 3 * l;
                }
                if op == 16 || i == 0 {
                    acc += x;
                } else {
                    acc -= x;
                }
            }
            c + MALLOC * rlen(&acc)
        }
        18 => {
            let v = ints(&it)?;
            let mut c: u128 = if new { 2000 } else { 92 };
            let div = if new { 16 } else { 128 };
            if v.is_empty() {
                return Some(c + MALLOC); // result is 1
            }
            let mut total = v[0].0.clone();
            let mut l0 = v[0].1;
            if new {
                c += 6 * l0;
            }
            for (x, l1) in &v[1..] {
                c += 885 + 6 * (l0 + l1) + (l0 * l1) / div;
                total *= x;
                l0 = limbs(&total);
            }
            c + MALLOC * rlen(&total)
        }
        19 | 20 | 61 => {
            let v = ints(&it)?;
            if v.len() != 2 || v[1].0.is_zero() {
                return None;
            }
            let (l0, l1) = (v[0].1, v[1].1);
            let (q, r) = v[0].0.div_mod_floor(&v[1].0);
            let base = if new {
                1000 + 50 * (l0 + l1) + (l0 * l1) / 10
            } else if op == 20 {
                1116 + 6 * (l0 + l1)
            } else {
                988 + 4 * (l0 + l1)
            };
            base + MALLOC * match op {
                19 => rlen(&q),
                61 => rlen(&r),
                _ => rlen(&q) + rlen(&r),
            }
        }
        21 => {
            let l = lens(&it)?;
            if new { 1000 + 4 * (l[0] + l[1]) } else { 498 + 2 * (l[0] + l[1]) }
        }
        22 | 23 => {
            let v = ints(&it)?;
            if v.len() != 2 {
                return None;
            }
            let sh = v[1].0.to_i64()?;
            if v[1].1 > 4 || sh.abs() > 65535 {
                return None;
            }
            let x = if op == 22 { v[0].0.clone() } else { BigInt::from_bytes_be(num_bigint::Sign::Plus, it[0].bytes()?) };
            let r = if sh >= 0 { x << (sh as usize) } else { x >> ((-sh) as usize) };
            let base = if op == 22 { 596 } else { 277 };
            base + 3 * (v[0].1 + limbs(&r)) + MALLOC * rlen(&r)
        }
        24 | 25 | 26 => {
            let v = ints(&it)?;
            let mut acc = if op == 24 { BigInt::from(-1) } else { BigInt::zero() };
            let mut c: u128 = 100;
            for (x, l) in &v {
                c += 264 + 3 * if new { (*l).max(limbs(&acc)) } else { *l };
                acc = match op {
                    24 => acc & x,
                    25 => acc | x,
                    _ => acc ^ x,
                };
            }
            c + MALLOC * rlen(&acc)
        }
        27 => {
            let v = ints(&it)?;
            331 + 3 * v[0].1 + MALLOC * rlen(&(!v[0].0.clone()))
        }
        29 => 101094 + 1343980 * n + 48 * MALLOC,
        30 => {
            let l = lens(&it)?;
            1325730 + 38 * l[0] + 48 * MALLOC
        }
        32 => 200,
        33 | 34 => 200 + 300 * n,
        48 => {
            let (b, pa, pb) = if new { (1000u128, 160u128, 6u128) } else { (87, 134, 2) };
            b + 3 * pa + pb * 72 - 153 + 32 * MALLOC
        }
        49 => 101094 + 1343980 * n + 48 * MALLOC,
        50 => {
            let l = lens(&it)?;
            (if new { 1_900_000 + 24 * l[1] } else { 705500 + 10 * l[1] }) + 48 * MALLOC
        }
        51 => 1396 - 480 + 48 * MALLOC,
        52 | 53 => 80000 + 1950000 * n + 96 * MALLOC,
        54 => {
            let l = lens(&it)?;
            (if new { 3_000_000 + 23 * l[1] } else { 2100000 + 5 * l[1] }) + 96 * MALLOC
        }
        55 => 2164 - 960 + 96 * MALLOC,
        56 | 57 => {
            let l = lens(&it)?;
            let dst = if l.len() >= 2 { l[1] } else { 43 };
            let (b, pb, pd) = match (op, new) {
                (56, false) => (195000, 4, 4),
                (56, true) => (700_000, 3, 2),
                (57, false) => (815000, 4, 4),
                _ => (2_700_000, 3, 2),
            };
            b + l[0] * pb + dst * pd + if op == 56 { 48 } else { 96 } * MALLOC
        }
        58 => {
            let (b, pa) = if new { (1_000_000u128, 5_000_000u128) } else { (3000000, 1200000) };
            b + (n / 2) * pa
        }
        59 => {
            let l = lens(&it)?;
            let (b, pa, pb, pd) = if new { (1_000_000u128, 5_000_000u128, 3u128, 2u128) } else { (3000000, 1200000, 4, 4) };
            let mut c = b;
            // l[0] is the signature, followed by (pk, msg) pairs
            let mut i = 1;
            while i + 1 < l.len() {
                c += pa + l[i + 1] * pb + 43 * pd;
                i += 2;
            }
            c
        }
        60 => {
            let v = ints(&it)?;
            if v.len() != 3 || v[2].0.is_zero() || v[1].0.is_negative() {
                return None;
            }
            let (b, e, m) = (v[0].1, v[1].1, v[2].1);
            let c = if new { 17000 + e * 8 * (m * m + 4000) + b * m } else { 17000 + 38 * b + 3 * e * e + 21 * m * m };
            let r = v[0].0.modpow(&v[1].0, &v[2].0);
            c + MALLOC * rlen(&r)
        }
        62 => {
            let l = lens(&it)?;
            let (b, pa, pb) = if new { (2350, 100, 10) } else { (50, 160, 2) };
            b + n * pa + l.iter().sum::<u128>() * pb + 32 * MALLOC
        }
        63 => {
            // base + per pair + per byte (atom length + 1 prefix byte) over the fully expanded tree
            let cpb: u128 = if new { 6 } else { 2 };
            let mut c: u128 = 270;
            let mut stack = vec![it.first()?.clone()];
            while let Some(t) = stack.pop() {
                match &t {
                    T::A(b) => c += (b.len() as u128 + 1) * cpb,
                    T::P(l, r) => {
                        c += 460;
                        stack.push((**l).clone());
                        stack.push((**r).clone());
                    }
                }
            }
            c + 32 * MALLOC
        }
        64 => 1300000,
        65 => 1850000,
        _ => return None,
    })
}

/// replay every operator vector of the repository (v1 = pre-hard-fork, v2 = NEW_COST_MODEL) through RefCost
pub fn validate(errors: &mut Vec<String>) -> u64 {
    let mut n = 0;
    let files: [(&str, bool); 26] = [
        ("test-core-ops.txt", false), ("test-core-ops-v2.txt", true), ("test-more-ops.txt", false), ("test-more-ops-v2.txt", true),
        ("test-sha256.txt", false), ("test-sha256-v2.txt", true), ("test-bls-ops.txt", false), ("test-modpow.txt", false), ("test-modpow-v2.txt", true),
        ("test-keccak256.txt", false), ("test-keccak256-v2.txt", true), ("test-sha256tree.txt", false), ("test-sha256tree-v2.txt", true),
        ("test-blspy-g1.txt", false), ("test-blspy-g1-v2.txt", true), ("test-blspy-g2.txt", false), ("test-blspy-g2-v2.txt", true),
        ("test-blspy-hash.txt", false), ("test-blspy-hash-v2.txt", true), ("test-blspy-pairing.txt", false), ("test-blspy-pairing-v2.txt", true),
        ("test-blspy-verify.txt", false), ("test-blspy-verify-v2.txt", true), ("test-secp-verify.txt", false), ("test-secp256k1.txt", false), ("test-secp256r1.txt", false),
    ];
    for (file, new) in files {
        if !std::path::Path::new(&format!("/repo/op-tests/{file}")).exists() {
            continue;
        }
        for v in crate::vectors::load(file) {
            let Some((_, cost)) = &v.expect else { continue };
            if v.op.len() != 1 {
                continue;
            }
            // the secp vectors named plain secp256k1_verify are the 4-byte opcodes mapped to 64/65 by OPNAMES
            let got = ref_cost(v.op[0], &v.args, new);
            match got {
                Some(c) if c == *cost as u128 => n += 1,
                other => errors.push(format!("RefCost disagrees with repository vector `{}` ({file}): {other:?}", v.line)),
            }
        }
    }
    n
}
