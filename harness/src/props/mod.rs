pub mod c15;
pub mod c16;
pub mod c21;
pub mod c29;

use crate::common::{Ctx, Report};
pub fn dispatch(p: &str, ctx: &Ctx) -> Option<Report> {
    Some(match p {
        "C15" => c15::run(ctx),
        "C16" => c16::run(ctx),
        "C21" => c21::run(ctx),
        "C29" => c29::run(ctx),
        _ => return None,
    })
}
