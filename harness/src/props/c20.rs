// C20 — serde_2026 round-trips, is total, and is recognisable.
use crate::common::*;
use crate::domains::*;
use crate::props::c17;
use crate::props::c21::ref_encode;
use crate::refserde::{self, MAGIC};
use crate::tree::{self, Builder, Enc, Sharing};
use clvmr::allocator::Allocator;
use clvmr::serde::{
    deserialize_2026, deserialize_2026_body_from_stream, deserialize_2026_from_stream, node_from_bytes, node_from_bytes_backrefs,
    node_from_bytes_backrefs_old, serialize_2026, serialized_length_serde_2026,
};
use serde_json::json;
use std::io::Cursor;

#[derive(Clone, Debug)]
enum Tok {
    V(i64),
    Raw(Vec<u8>),
}

fn overlong(v: i64, extra: usize) -> Option<Vec<u8>> {
    // encode v using (shortest length + extra) bytes
    let short = ref_encode(v);
    let n = short.len() + extra;
    if n > 8 {
        return None;
    }
    let l = n - 1;
    let bits = 7 + 7 * l as u32;
    let u: u128 = if v < 0 { (v as i128 + (1i128 << bits)) as u128 } else { v as u128 };
    let mut out = vec![0u8; n];
    for i in 0..n {
        out[n - 1 - i] = (u >> (8 * i)) as u8;
    }
    let prefix: u8 = (0xffu16 << (8 - l)) as u8;
    out[0] = prefix | (out[0] & ((1u16 << (7 - l)) - 1) as u8);
    Some(out)
}

fn render(toks: &[Tok], overlong_at: Option<(usize, usize)>) -> Vec<u8> {
    let mut out = vec![];
    let mut vi = 0;
    for t in toks {
        match t {
            Tok::V(v) => {
                match overlong_at {
                    Some((idx, extra)) if idx == vi => out.extend(overlong(*v, extra).unwrap_or_else(|| ref_encode(*v))),
                    _ => out.extend(ref_encode(*v)),
                }
                vi += 1;
            }
            Tok::Raw(b) => out.extend_from_slice(b),
        }
    }
    out
}

/// check one body (without magic) under all parameter combinations
fn check_body(body: &[u8], acc: &mut Acc, a: &mut Allocator) {
    let mut blob = MAGIC.to_vec();
    blob.extend_from_slice(body);
    for strict in [false, true] {
        for max_atom_len in [0usize, 1, 2, 3, 1 << 20] {
            acc.inc("decode_calls");
            let canon = || format!("body {} strict={strict} max_atom_len={max_atom_len}", hx(body));
            let reference = refserde::deser_2026_body(body, max_atom_len as u64, strict);
            let cp = a.checkpoint();
            let r1 = deserialize_2026(a, &blob, max_atom_len, strict);
            let mut cur = Cursor::new(body);
            let r2 = deserialize_2026_body_from_stream(a, &mut cur, max_atom_len, strict);
            let pos2 = cur.position() as usize;
            let r3 = serialized_length_serde_2026(&blob, max_atom_len, strict);
            match (&reference, &r1, &r2) {
                (None, Err(_), Err(_)) => acc.inc("rejected"),
                (Some((t, n)), Ok(n1), Ok(n2)) => {
                    acc.inc("accepted");
                    if tree::read(a, *n1) != *t || tree::read(a, *n2) != *t {
                        acc.violation(canon(), format!("decoded tree differs from reference {}", t.hex()));
                    }
                    if pos2 != *n {
                        acc.violation(canon(), format!("stream decoder consumed {pos2}, reference {n}"));
                    }
                    // short-read deviation: the body through readers that answer every read with at most 1 / 3 bytes
                    for chunk in [1usize, 3] {
                        let mut cr = ChunkReader::new(body, chunk);
                        match deserialize_2026_body_from_stream(a, &mut cr, max_atom_len, strict) {
                            Ok(n5) => {
                                if tree::read(a, n5) != *t || cr.pos != *n {
                                    acc.violation(canon(), format!("reader answering {chunk} byte(s) per read: different tree or consumed {} (reference {n})", cr.pos));
                                }
                            }
                            Err(e) => acc.violation(canon(), format!("reader answering {chunk} byte(s) per read: rejected ({e}) although the whole-slice reader accepts")),
                        }
                    }
                    // the whole-blob stream entry point: same tree, and the caller's stream is left exactly
                    // after the blob (the body may be followed by further bytes in this space)
                    let mut cur4 = Cursor::new(&blob[..]);
                    match deserialize_2026_from_stream(a, &mut cur4, max_atom_len, strict) {
                        Ok(n4) => {
                            if tree::read(a, n4) != *t {
                                acc.violation(canon(), format!("deserialize_2026_from_stream decoded a different tree than reference {}", t.hex()));
                            }
                            if cur4.position() as usize != n + MAGIC.len() {
                                acc.violation(canon(), format!("deserialize_2026_from_stream left the stream at {}, the blob ends at {}", cur4.position(), n + MAGIC.len()));
                            }
                        }
                        Err(e) => acc.violation(canon(), format!("deserialize_2026_from_stream rejects what deserialize_2026 accepts: {e}")),
                    }
                    match r3 {
                        Ok(l) if l as usize == n + MAGIC.len() => {}
                        ref o => acc.violation(canon(), format!("length probe {o:?} != consumed {}", n + MAGIC.len())),
                    }
                    acc.outcome(fnv(&t.ser()));
                }
                _ => acc.violation(
                    canon(),
                    format!("acceptance differs: reference {:?}, deserialize_2026 {:?}, body_from_stream {:?}", reference.as_ref().map(|x| x.1), r1.as_ref().map(|_| ()).map_err(|e| e.to_string()), r2.as_ref().map(|_| ()).map_err(|e| e.to_string())),
                ),
            }
            a.restore_checkpoint(&cp);
        }
    }
}

fn atom_values(len: usize) -> Vec<Vec<u8>> {
    let alpha = [0x00u8, 0x01, 0x80];
    let mut out = vec![vec![]];
    for _ in 0..len {
        let mut n = vec![];
        for p in &out {
            for a in alpha {
                let mut q: Vec<u8> = p.clone();
                q.push(a);
                n.push(q);
            }
        }
        out = n;
    }
    out
}

/// all atom-table configurations (token lists, without the leading group count) together with
/// the number of groups they contain
fn group_configs() -> Vec<Vec<Tok>> {
    let mut g: Vec<Vec<Tok>> = vec![];
    // single positive header groups
    for len in [1usize, 2] {
        for v in atom_values(len) {
            g.push(vec![Tok::V(len as i64), Tok::Raw(v)]);
        }
    }
    // negative header groups
    for (len, counts) in [(1usize, vec![0usize, 1, 2, 3]), (2, vec![0, 1, 2])] {
        for c in counts {
            for v in atom_values(len * c) {
                g.push(vec![Tok::V(-(len as i64)), Tok::V(c as i64), Tok::Raw(v)]);
            }
        }
    }
    // degenerate headers
    g.push(vec![Tok::V(0)]);
    g.push(vec![Tok::V(0), Tok::V(1)]);
    g.push(vec![Tok::V(3), Tok::Raw(vec![1, 2])]); // short body
    g.push(vec![Tok::V(1 << 20), Tok::Raw(vec![1, 2, 3])]);
    g.push(vec![Tok::V((1 << 20) + 1), Tok::Raw(vec![1, 2, 3])]);
    g.push(vec![Tok::V(-(1 << 20) - 1), Tok::V(1), Tok::Raw(vec![1])]);
    g.push(vec![Tok::V(-1), Tok::V(-1), Tok::Raw(vec![1])]);
    g.push(vec![Tok::V(-1), Tok::V(1 << 40), Tok::Raw(vec![1])]);
    g.push(vec![Tok::V((1i64 << 55) - 1), Tok::Raw(vec![1])]);
    g.push(vec![Tok::V(-(1i64 << 55)), Tok::V(1), Tok::Raw(vec![1])]);
    g
}

fn tables() -> Vec<Vec<Tok>> {
    let groups = group_configs();
    let mut t: Vec<Vec<Tok>> = vec![];
    // zero groups (and wrong declared counts)
    for declared in [0i64, 1, -1] {
        t.push(vec![Tok::V(declared)]);
    }
    for g in &groups {
        for declared in [1i64, 0, 2] {
            let mut v = vec![Tok::V(declared)];
            v.extend(g.iter().cloned());
            t.push(v);
        }
    }
    // two groups over a small set
    let small: Vec<&Vec<Tok>> = groups.iter().filter(|g| match (&g[0], g.get(1)) {
        (Tok::V(1), _) => true,
        (Tok::V(-1), Some(Tok::V(2))) => true,
        _ => false,
    }).collect();
    for g1 in &small {
        for g2 in &small {
            let mut v = vec![Tok::V(2)];
            v.extend(g1.iter().cloned());
            v.extend(g2.iter().cloned());
            t.push(v);
        }
    }
    // three single-atom groups
    let singles: Vec<&Vec<Tok>> = groups.iter().filter(|g| matches!(g[0], Tok::V(1))).collect();
    for g1 in &singles {
        for g2 in &singles {
            for g3 in &singles {
                let mut v = vec![Tok::V(3)];
                v.extend(g1.iter().cloned());
                v.extend(g2.iter().cloned());
                v.extend(g3.iter().cloned());
                t.push(v);
            }
        }
    }
    t
}

const INSTRS: [i64; 9] = [0, 1, -1, 2, 3, 4, -2, -3, -4];

/// child process: decoders with max_atom_len = usize::MAX on blobs that declare huge atoms
pub fn huge_child(which: usize) -> i32 {
    // cap the address space at 3 GiB so that a huge pre-allocation fails fast instead of being zero-filled
    unsafe {
        let lim = libc::rlimit { rlim_cur: 3 << 30, rlim_max: 3 << 30 };
        libc::setrlimit(libc::RLIMIT_AS, &lim);
    }
    let blobs = huge_blobs();
    let body = &blobs[which];
    let mut blob = MAGIC.to_vec();
    blob.extend_from_slice(body);
    let mut a = Allocator::new();
    for strict in [true, false] {
        let _ = deserialize_2026(&mut a, &blob, usize::MAX, strict);
        let mut cur = Cursor::new(&body[..]);
        let _ = deserialize_2026_body_from_stream(&mut a, &mut cur, usize::MAX, strict);
        let _ = serialized_length_serde_2026(&blob, usize::MAX, strict);
    }
    0
}
pub fn huge_blobs() -> Vec<Vec<u8>> {
    let mut v = vec![];
    for len in [(1i64 << 55) - 1, 1 << 40, 1 << 33, (1 << 31) + 7] {
        // one group, one atom of `len` bytes declared, 3 bytes present
        v.push(render(&[Tok::V(1), Tok::V(len), Tok::Raw(vec![1, 2, 3]), Tok::V(1), Tok::V(2)], None));
        // negative header with a count
        v.push(render(&[Tok::V(1), Tok::V(-len), Tok::V(2), Tok::Raw(vec![1, 2, 3])], None));
    }
    // huge group / instruction counts
    v.push(render(&[Tok::V((1i64 << 55) - 1)], None));
    v.push(render(&[Tok::V(0), Tok::V((1i64 << 55) - 1), Tok::V(0)], None));
    v.push(render(&[Tok::V(1), Tok::V(-1), Tok::V((1i64 << 55) - 1), Tok::Raw(vec![1, 2, 3])], None));
    v
}

pub fn run(ctx: &Ctx) -> Report {
    let mut rep = Report::new("C20", "model_checking");
    let seed = ctx.seed;
    // (a) trees x levels: round trip, length probe, recognisability
    let levels = [0u32, 1, u32::MAX];
    for (si, ts) in c17::spaces(ctx).iter().enumerate() {
        let acc = par_for(ctx, ts.total, 64, |i| format!("space{si} tree#{i}"), |i, acc| {
            thread_local! { static A: std::cell::RefCell<Allocator> = std::cell::RefCell::new(Allocator::new()); }
            let t = ts.get(i);
            let ser = t.ser();
            A.with(|a| {
                let a = &mut a.borrow_mut();
                for sh in [Sharing::Fresh, Sharing::HashCons] {
                    let cp = a.checkpoint();
                    let n = Builder::new(sh, Enc::Inline).build(a, &t);
                    for level in levels {
                        let canon = format!("tree {} sharing={sh:?} level={level}", hx(&ser));
                        acc.inc("tree_cases");
                        let blob = match serialize_2026(a, n, level) {
                            Ok(b) => b,
                            Err(e) => {
                                acc.violation(canon, format!("serialize_2026 failed: {e}"));
                                continue;
                            }
                        };
                        for strict in [true, false] {
                            match deserialize_2026(a, &blob, 1 << 20, strict) {
                                Ok(m) => {
                                    if tree::read_ser(a, m) != ser {
                                        acc.violation(canon.clone(), format!("round trip differs (strict={strict}) blob {}", hx(&blob)));
                                    }
                                }
                                Err(e) => acc.violation(canon.clone(), format!("deserialize_2026(strict={strict}) rejects serializer output {}: {e}", hx(&blob))),
                            }
                            match serialized_length_serde_2026(&blob, 1 << 20, strict) {
                                Ok(l) if l as usize == blob.len() => {}
                                o => acc.violation(canon.clone(), format!("serialized_length_serde_2026 {o:?} != {}", blob.len())),
                            }
                        }
                        // short-write deviation: a writer accepting 1 / 5 bytes per call receives the same blob;
                        // short-read deviation: the blob decodes the same through a reader answering 1 / 2 bytes per read
                        for chunk in [1usize, 5] {
                            let mut cw = ChunkWriter { out: vec![], chunk };
                            match clvmr::serde_2026::serialize_2026_to_stream(a, n, level, &mut cw) {
                                Ok(()) if cw.out == blob => {}
                                other => acc.violation(canon.clone(), format!("serialize_2026_to_stream into a writer accepting {chunk} byte(s) per write: {other:?}, {} bytes vs {}", cw.out.len(), blob.len())),
                            }
                        }
                        for chunk in [1usize, 2] {
                            let mut cr = ChunkReader::new(&blob, chunk);
                            match deserialize_2026_from_stream(a, &mut cr, 1 << 20, true) {
                                Ok(m) => {
                                    if tree::read_ser(a, m) != ser || cr.pos != blob.len() {
                                        acc.violation(canon.clone(), format!("reader answering {chunk} byte(s) per read: round trip differs or consumed {} of {}", cr.pos, blob.len()));
                                    }
                                }
                                Err(e) => acc.violation(canon.clone(), format!("reader answering {chunk} byte(s) per read: deserialize_2026_from_stream fails: {e}")),
                            }
                        }
                        // two blobs back to back on one stream: each decode consumes exactly its own blob
                        {
                            let mut two = blob.clone();
                            two.extend_from_slice(&blob);
                            let mut cur = Cursor::new(&two[..]);
                            for k in 1..=2u64 {
                                match deserialize_2026_from_stream(a, &mut cur, 1 << 20, true) {
                                    Ok(m) => {
                                        if tree::read_ser(a, m) != ser {
                                            acc.violation(canon.clone(), format!("stream round trip differs (blob {k} of 2 on one stream)"));
                                        }
                                        if cur.position() != k * blob.len() as u64 {
                                            acc.violation(canon.clone(), format!("deserialize_2026_from_stream consumed up to {} after blob {k} of 2, expected {}", cur.position(), k * blob.len() as u64));
                                        }
                                    }
                                    Err(e) => {
                                        acc.violation(canon.clone(), format!("deserialize_2026_from_stream fails on blob {k} of 2 on one stream: {e}"));
                                        break;
                                    }
                                }
                            }
                        }
                        // with trailing garbage the probe still reports the blob length
                        let mut tr = blob.clone();
                        tr.extend_from_slice(&[0xff, 0x00, 0x81]);
                        match serialized_length_serde_2026(&tr, 1 << 20, true) {
                            Ok(l) if l as usize == blob.len() => {}
                            o => acc.violation(canon.clone(), format!("length probe with trailing data {o:?} != {}", blob.len())),
                        }
                        match refserde::deser_2026_body(&blob[6..], 1 << 20, true) {
                            Some((rt, n)) if rt == t && n + 6 == blob.len() => {}
                            _ => acc.violation(canon.clone(), format!("reference decoder does not reproduce the tree from {}", hx(&blob))),
                        }
                        if node_from_bytes(a, &blob).is_ok() || node_from_bytes_backrefs(a, &blob).is_ok() || node_from_bytes_backrefs_old(a, &blob).is_ok() {
                            acc.violation(canon.clone(), "a classic/back-reference decoder accepts a 2026 blob".into());
                        }
                    }
                    a.restore_checkpoint(&cp);
                }
            });
        });
        rep.absorb(acc);
    }
    // (a2) index families: atom groups of every size 1..=140 with 1..3 members (group headers -64, -128 ...),
    //      and repeated pairs at every construction index up to 140 (instructions -64, ...)
    {
        let mut acc = Acc::default();
        let mut a = Allocator::new();
        let mut run_tree = |t: &crate::tree::T, name: String, acc: &mut Acc, a: &mut Allocator| {
            let ser = t.ser();
            let n = Builder::new(Sharing::HashCons, Enc::Inline).build(a, t);
            acc.inc("tree_cases");
            match serialize_2026(a, n, 0) {
                Ok(blob) => {
                    for strict in [true, false] {
                        match deserialize_2026(a, &blob, 1 << 20, strict) {
                            Ok(m) if tree::read_ser(a, m) == ser => {}
                            o => acc.violation(name.clone(), format!("round trip (strict={strict}) fails: {:?}", o.map(|_| "different tree"))),
                        }
                        match serialized_length_serde_2026(&blob, 1 << 20, strict) {
                            Ok(l) if l as usize == blob.len() => {}
                            o => acc.violation(name.clone(), format!("length probe (strict={strict}) {o:?} != {}", blob.len())),
                        }
                    }
                }
                Err(e) => acc.violation(name, format!("serialize_2026 failed: {e}")),
            }
        };
        for len in 1..=140usize {
            for members in 1..=3usize {
                let atoms: Vec<crate::tree::T> = (0..members).map(|m| crate::tree::atom(&vec![0x30 + m as u8; len])).collect();
                let t = crate::tree::list(&atoms);
                run_tree(&t, format!("atom group len={len} members={members}"), &mut acc, &mut a);
            }
        }
        for n in 1..=140usize {
            let items: Vec<crate::tree::T> = (0..n).map(|j| crate::tree::cons(crate::tree::int_atom(1000 + j as i128), crate::tree::int_atom(5000 + j as i128))).collect();
            for k in [0usize, n / 2, n - 1] {
                let t = crate::tree::cons(crate::tree::list(&items), items[k].clone());
                run_tree(&t, format!("repeated pair n={n} k={k}"), &mut acc, &mut a);
                let t2 = crate::tree::cons(items[k].clone(), crate::tree::list(&items));
                run_tree(&t2, format!("repeated pair first n={n} k={k}"), &mut acc, &mut a);
            }
        }
        rep.absorb(acc);
    }
    // (b) raw bodies: BYTES(2|3) and BYTES(5|6, 12-byte alphabet)
    let all = all_bytes();
    let l1 = ctx.pick(2, 3);
    let n1 = count_bytes_upto(256, l1);
    let acc = par_for(ctx, n1, 1 << 10, |i| format!("body BYTES#{i}"), |i, acc| {
        thread_local! { static A: std::cell::RefCell<Allocator> = std::cell::RefCell::new(Allocator::new()); }
        let mut s = Vec::new();
        nth_bytes_upto(&all, l1, i, &mut s);
        A.with(|a| check_body(&s, acc, &mut a.borrow_mut()));
        // classic / backref decoders must reject magic || anything
        let mut blob = MAGIC.to_vec();
        blob.extend_from_slice(&s);
        A.with(|a| {
            let a = &mut a.borrow_mut();
            let cp = a.checkpoint();
            if node_from_bytes(a, &blob).is_ok() || node_from_bytes_backrefs(a, &blob).is_ok() || node_from_bytes_backrefs_old(a, &blob).is_ok() {
                acc.violation(format!("magic||{}", hx(&s)), "a classic/back-reference decoder accepts a blob with the 2026 magic prefix".into());
            }
            a.restore_checkpoint(&cp);
        });
        acc.inc("bodies");
    });
    rep.absorb(acc);
    let alpha: [u8; 12] = [0x00, 0x01, 0x02, 0x03, 0x3f, 0x40, 0x7e, 0x7f, 0x80, 0xbf, 0xfe, 0xff];
    let l2 = ctx.pick(5, 6);
    let n2 = count_bytes_upto(12, l2);
    let acc = par_for(ctx, n2, 1 << 10, |i| format!("body A12#{i}"), |i, acc| {
        thread_local! { static A: std::cell::RefCell<Allocator> = std::cell::RefCell::new(Allocator::new()); }
        let mut s = Vec::new();
        nth_bytes_upto(&alpha, l2, i, &mut s);
        A.with(|a| check_body(&s, acc, &mut a.borrow_mut()));
        acc.inc("bodies");
    });
    rep.absorb(acc);
    // (c) token sequences
    let tabs = tables();
    let kmax = ctx.pick(3usize, 5);
    let mut seqs: Vec<Vec<i64>> = vec![vec![]];
    {
        let mut cur: Vec<Vec<i64>> = vec![vec![]];
        for _ in 0..kmax {
            let mut nx = vec![];
            for s in &cur {
                for i in INSTRS {
                    let mut q = s.clone();
                    q.push(i);
                    nx.push(q);
                }
            }
            seqs.extend(nx.iter().cloned());
            cur = nx;
        }
    }
    let nt = tabs.len() as u64;
    let ns = seqs.len() as u64;
    let total = nt * ns * 3;
    let okmax = ctx.pick(2usize, 3); // overlong deviations only for instruction sequences up to this length
    let acc = par_for(ctx, total, 1 << 8, |i| format!("tokens#{i}"), |i, acc| {
        thread_local! { static A: std::cell::RefCell<Allocator> = std::cell::RefCell::new(Allocator::new()); }
        let tab = &tabs[(i / (ns * 3)) as usize];
        let seq = &seqs[((i / 3) % ns) as usize];
        let declared = seq.len() as i64 + [0i64, 1, -1][(i % 3) as usize];
        let mut toks = tab.clone();
        toks.push(Tok::V(declared));
        for x in seq {
            toks.push(Tok::V(*x));
        }
        let body = render(&toks, None);
        A.with(|a| check_body(&body, acc, &mut a.borrow_mut()));
        acc.inc("token_blobs");
        if seq.len() <= okmax && i % 3 == 0 {
            // deviation bound 1: exactly one varint in an overlong form (1 or 2 extra bytes)
            let nv = toks.iter().filter(|t| matches!(t, Tok::V(_))).count();
            for vi in 0..nv {
                for extra in [1usize, 2] {
                    let body = render(&toks, Some((vi, extra)));
                    A.with(|a| check_body(&body, acc, &mut a.borrow_mut()));
                    acc.inc("token_blobs_overlong");
                }
            }
        }
        acc.maybe_sample(sample_key(seed, i), || json!({"body": hx(&body), "tokens": format!("{toks:?}")}));
    });
    rep.absorb(acc);
    // (d) max_atom_len = usize::MAX: blobs that declare atoms of 2^31..2^55 bytes, in a child process
    //     (an allocation failure aborts the process, which would take the whole check down)
    {
        let exe = std::env::current_exe().unwrap();
        for (i, b) in huge_blobs().iter().enumerate() {
            let out = std::process::Command::new(&exe).args(["C20HUGE", &i.to_string()]).env("VH_RLIMIT_AS", "1").output();
            rep.acc.inc("huge_declared_length_cases");
            let ok = out.as_ref().map(|o| o.status.code() == Some(0)).unwrap_or(false);
            if !ok {
                rep.acc.violation(format!("body {} max_atom_len=usize::MAX", hx(b)), format!("decoder process ended with {:?}: a declared atom length is pre-allocated before any byte of it is read", out.map(|o| (o.status.to_string(), String::from_utf8_lossy(&o.stderr).chars().take(200).collect::<String>()))));
            }
        }
    }
    rep.evaluations = rep.acc.get("tree_cases") + rep.acc.get("decode_calls") + rep.acc.get("huge_declared_length_cases");
    rep.nontrivial = rep.acc.get("tree_cases") + rep.acc.get("accepted");
    rep.states = rep.acc.get("tree_cases") + rep.acc.get("bodies") + rep.acc.get("token_blobs") + rep.acc.get("token_blobs_overlong");
    rep.transitions = rep.evaluations;
    rep.traces = rep.evaluations;
    rep.rule = format!("(a) every tree of C17's spaces x sharing x levels {{0,1,u32::MAX}}: strict+lenient round trip, length probe (also with trailing bytes), two blobs back to back on one stream, short-write writers (1/5 bytes per call) and short-read readers (1/2/3 bytes per call), reference decoder, rejection by classic/backref decoders; (b) every body in BYTES({l1}) and BYTES({l2}, 12-byte alphabet), (c) every token-level blob: {nt} atom-table configurations (0-3 groups, headers +-1,+-2,0,2^20(+1),+-2^55, counts 0..3, atom bytes over {{00,01,80}}, wrong declared group count) x every instruction sequence of length <= {kmax} over {INSTRS:?} x declared count {{k,k+1,k-1}}, plus every single-varint overlong deviation (1 or 2 extra bytes) for sequences <= {okmax}; each body under strict x max_atom_len {{0,1,2,3,2^20}} through deserialize_2026, deserialize_2026_from_stream (stream position afterwards), deserialize_2026_body_from_stream and serialized_length_serde_2026 against a reference decoder written from docs/serde-2026.md (accept/reject, tree, consumed == probe). Non-trivial = tree cases + (body, parameters) combinations that decode.");
    rep.assumptions.push("reference 2026 decoder in refserde.rs; where docs/serde-2026.md is silent (count==0 rejected, bound checked before count is read) the reference mirrors the implementation".into());
    rep.note("max_atom_len_usize_max", json!("a declared atom length up to max_atom_len is pre-allocated before reading (buf.resize); with max_atom_len=usize::MAX that is caller-selected unbounded allocation and is explored only in the subprocess tier (see DESIGN.md C20)"));
    rep
}
