// Pure tree type used by all reference models, enumerators for TREES(k, A),
// and materialisation into a real Allocator under several sharing modes and
// atom encodings.
use clvmr::allocator::{Allocator, NodePtr, SExp};
use std::collections::HashMap;
use std::rc::Rc;

#[derive(Debug, Clone, PartialEq, Eq, Hash, PartialOrd, Ord)]
pub enum T {
    A(Rc<Vec<u8>>),
    P(Rc<T>, Rc<T>),
}

pub fn atom(b: &[u8]) -> T {
    T::A(Rc::new(b.to_vec()))
}
pub fn nil() -> T {
    atom(&[])
}
pub fn cons(a: T, b: T) -> T {
    T::P(Rc::new(a), Rc::new(b))
}
pub fn list(items: &[T]) -> T {
    let mut r = nil();
    for i in items.iter().rev() {
        r = cons(i.clone(), r);
    }
    r
}
pub fn list_t(items: &[T], term: T) -> T {
    let mut r = term;
    for i in items.iter().rev() {
        r = cons(i.clone(), r);
    }
    r
}
pub fn quote(x: T) -> T {
    cons(atom(&[1]), x)
}

impl T {
    pub fn bytes(&self) -> Option<&[u8]> {
        match self {
            T::A(b) => Some(&b[..]),
            _ => None,
        }
    }
    pub fn is_nil(&self) -> bool {
        matches!(self, T::A(b) if b.is_empty())
    }
    pub fn is_pair(&self) -> bool {
        matches!(self, T::P(..))
    }
    /// reference classic serialization, written from the format description
    pub fn ser(&self) -> Vec<u8> {
        let mut out = Vec::new();
        let mut stack: Vec<&T> = vec![self];
        while let Some(t) = stack.pop() {
            match t {
                T::A(b) => ser_atom(b, &mut out),
                T::P(l, r) => {
                    out.push(0xff);
                    stack.push(r);
                    stack.push(l);
                }
            }
        }
        out
    }
    pub fn hex(&self) -> String {
        hex::encode(self.ser())
    }
    pub fn ser_len(&self) -> u64 {
        let mut n = 0u64;
        let mut stack: Vec<&T> = vec![self];
        while let Some(t) = stack.pop() {
            match t {
                T::A(b) => n += atom_ser_len(b) as u64,
                T::P(l, r) => {
                    n += 1;
                    stack.push(r);
                    stack.push(l);
                }
            }
        }
        n
    }
    pub fn count_nodes(&self) -> (u64, u64) {
        // (atoms, pairs) in the fully expanded tree
        let mut a = 0;
        let mut p = 0;
        let mut stack: Vec<&T> = vec![self];
        while let Some(t) = stack.pop() {
            match t {
                T::A(_) => a += 1,
                T::P(l, r) => {
                    p += 1;
                    stack.push(r);
                    stack.push(l);
                }
            }
        }
        (a, p)
    }
}

pub fn atom_ser_len(b: &[u8]) -> usize {
    let n = b.len();
    if n == 0 {
        1
    } else if n == 1 && b[0] < 0x80 {
        1
    } else if n < 0x40 {
        1 + n
    } else if n < 0x2000 {
        2 + n
    } else if n < 0x10_0000 {
        3 + n
    } else if n < 0x800_0000 {
        4 + n
    } else {
        5 + n
    }
}

pub fn ser_atom_prefix(n: u64, first: Option<u8>, out: &mut Vec<u8>) -> bool {
    // returns false if the atom is a single byte < 0x80 (no prefix, byte itself) or empty (0x80 only)
    if n == 0 {
        out.push(0x80);
        return false;
    }
    if n == 1 && first.unwrap() < 0x80 {
        return true;
    }
    if n < 0x40 {
        out.push(0x80 | n as u8);
    } else if n < 0x2000 {
        out.push(0xc0 | (n >> 8) as u8);
        out.push(n as u8);
    } else if n < 0x10_0000 {
        out.push(0xe0 | (n >> 16) as u8);
        out.push((n >> 8) as u8);
        out.push(n as u8);
    } else if n < 0x800_0000 {
        out.push(0xf0 | (n >> 24) as u8);
        out.push((n >> 16) as u8);
        out.push((n >> 8) as u8);
        out.push(n as u8);
    } else {
        out.push(0xf8 | (n >> 32) as u8);
        out.push((n >> 24) as u8);
        out.push((n >> 16) as u8);
        out.push((n >> 8) as u8);
        out.push(n as u8);
    }
    true
}

pub fn ser_atom(b: &[u8], out: &mut Vec<u8>) {
    if ser_atom_prefix(b.len() as u64, b.first().copied(), out) {
        out.extend_from_slice(b);
    }
}

/// reference classic decoder. Returns (tree, bytes consumed) or None.
/// Written from the format description: 0xff = cons, 0x80 = nil, <0x80 one byte,
/// otherwise a length prefix of 1..6 bytes whose value must be < 2^34.
pub fn deser(buf: &[u8]) -> Option<(T, usize)> {
    enum Op {
        Parse,
        Cons,
    }
    let mut ops = vec![Op::Parse];
    let mut vals: Vec<T> = vec![];
    let mut pos = 0usize;
    while let Some(op) = ops.pop() {
        match op {
            Op::Parse => {
                let b = *buf.get(pos)?;
                pos += 1;
                if b == 0xff {
                    ops.push(Op::Cons);
                    ops.push(Op::Parse);
                    ops.push(Op::Parse);
                } else {
                    let (a, np) = deser_atom_after_first(buf, pos, b)?;
                    pos = np;
                    vals.push(a);
                }
            }
            Op::Cons => {
                let r = vals.pop()?;
                let l = vals.pop()?;
                vals.push(cons(l, r));
            }
        }
    }
    Some((vals.pop()?, pos))
}

pub fn deser_atom_after_first(buf: &[u8], mut pos: usize, b: u8) -> Option<(T, usize)> {
    if b == 0x80 {
        return Some((nil(), pos));
    }
    if b < 0x80 {
        return Some((atom(&[b]), pos));
    }
    // count leading ones
    let mut extra = 0usize;
    let mut mask = 0x80u8;
    let mut first = b;
    while first & mask != 0 {
        extra += 1;
        first &= !mask;
        mask >>= 1;
    }
    // extra = number of leading 1 bits; size bytes = extra (including first)
    if extra > 6 {
        return None; // 0xfe / 0xff: reserved (back-reference / cons markers)
    }
    let mut n: u64 = first as u64;
    for _ in 1..extra {
        let c = *buf.get(pos)?;
        pos += 1;
        n = (n << 8) | c as u64;
    }
    if n >= 0x4_0000_0000 {
        return None;
    }
    let n = n as usize;
    if buf.len() - pos < n {
        return None;
    }
    let a = atom(&buf[pos..pos + n]);
    Some((a, pos + n))
}

// ---------------------------------------------------------------------
// enumeration

/// all tree shapes with exactly n leaves; leaves numbered left to right.
#[derive(Debug, Clone, PartialEq, Eq, Hash)]
pub enum Shape {
    L,
    N(Box<Shape>, Box<Shape>),
}

pub fn shapes(n: usize) -> Vec<Shape> {
    fn go(n: usize, memo: &mut HashMap<usize, Vec<Shape>>) -> Vec<Shape> {
        if let Some(v) = memo.get(&n) {
            return v.clone();
        }
        let mut out = vec![];
        if n == 1 {
            out.push(Shape::L);
        } else {
            for l in 1..n {
                let ls = go(l, memo);
                let rs = go(n - l, memo);
                for a in &ls {
                    for b in &rs {
                        out.push(Shape::N(Box::new(a.clone()), Box::new(b.clone())));
                    }
                }
            }
        }
        memo.insert(n, out.clone());
        out
    }
    go(n, &mut HashMap::new())
}

fn fill(shape: &Shape, leaves: &[T], idx: &mut usize) -> T {
    match shape {
        Shape::L => {
            let t = leaves[*idx].clone();
            *idx += 1;
            t
        }
        Shape::N(a, b) => {
            let l = fill(a, leaves, idx);
            let r = fill(b, leaves, idx);
            cons(l, r)
        }
    }
}

/// number of trees with exactly n leaves over an alphabet of size k
pub fn count_trees_exact(n: usize, k: usize) -> u64 {
    shapes(n).len() as u64 * (k as u64).pow(n as u32)
}

/// the i-th tree (0-based) among those with exactly n leaves over alphabet `alpha`.
/// Order: shape-major, then leaves as base-|alpha| digits (leftmost leaf most significant).
pub fn nth_tree(shapes_n: &[Shape], n: usize, alpha: &[Vec<u8>], i: u64) -> T {
    let k = alpha.len() as u64;
    let per = k.pow(n as u32);
    let s = &shapes_n[(i / per) as usize];
    let mut d = i % per;
    let mut leaves = vec![nil(); n];
    for j in (0..n).rev() {
        leaves[j] = atom(&alpha[(d % k) as usize]);
        d /= k;
    }
    let mut idx = 0;
    fill(s, &leaves, &mut idx)
}

/// An indexable description of TREES(kmax, alpha): all trees with 1..=kmax leaves.
pub struct TreeSpace {
    pub alpha: Vec<Vec<u8>>,
    pub shapes: Vec<Vec<Shape>>, // index = leaves
    pub offsets: Vec<u64>,       // cumulative counts, offsets[n] = #trees with < n leaves... (n>=1)
    pub total: u64,
}

impl TreeSpace {
    pub fn new(kmax: usize, alpha_t: &[T]) -> Self {
        let alpha: Vec<Vec<u8>> = alpha_t.iter().map(|t| t.bytes().expect("leaf alphabet must be atoms").to_vec()).collect();
        let mut shp = vec![vec![]];
        let mut offsets = vec![0, 0];
        let mut total = 0u64;
        for n in 1..=kmax {
            let s = shapes(n);
            total += s.len() as u64 * (alpha.len() as u64).pow(n as u32);
            shp.push(s);
            offsets.push(total);
        }
        TreeSpace {
            alpha,
            shapes: shp,
            offsets,
            total,
        }
    }
    pub fn from_bytes(kmax: usize, alpha: &[&[u8]]) -> Self {
        let a: Vec<T> = alpha.iter().map(|b| atom(b)).collect();
        Self::new(kmax, &a)
    }
    pub fn get(&self, i: u64) -> T {
        let mut n = 1;
        while self.offsets[n + 1] <= i {
            n += 1;
        }
        nth_tree(&self.shapes[n], n, &self.alpha, i - self.offsets[n])
    }
    pub fn leaves_of(&self, i: u64) -> usize {
        let mut n = 1;
        while self.offsets[n + 1] <= i {
            n += 1;
        }
        n
    }
}

// ---------------------------------------------------------------------
// materialisation into the real allocator

#[derive(Debug, Clone, Copy, PartialEq, Eq)]
pub enum Sharing {
    Fresh,    // every node allocated separately
    HashCons, // identical sub-trees share one NodePtr
    Atoms,    // only equal atoms shared
}
pub const SHARINGS: [Sharing; 3] = [Sharing::Fresh, Sharing::HashCons, Sharing::Atoms];

#[derive(Debug, Clone, Copy, PartialEq, Eq)]
pub enum Enc {
    Inline, // whatever new_atom picks
    Heap,   // forced into u8_vec via new_concat(len, [nil, x, nil])
    View,   // a new_substr window into a larger heap atom
    Mixed,  // cycle Inline / Heap / View per atom occurrence (same value in different representations)
}
pub const ENCS: [Enc; 3] = [Enc::Inline, Enc::Heap, Enc::View];
pub const ENCS4: [Enc; 4] = [Enc::Inline, Enc::Heap, Enc::View, Enc::Mixed];

pub fn mk_atom(a: &mut Allocator, b: &[u8], enc: Enc) -> NodePtr {
    match enc {
        Enc::Mixed => unreachable!("resolved by the Builder"),
        Enc::Inline => a.new_atom(b).unwrap(),
        Enc::Heap => {
            if b.is_empty() {
                // a zero-length heap atom: substr of a heap atom
                let big = a.new_atom(&[0xaa; 8]).unwrap();
                return a.new_substr(big, 3, 3).unwrap();
            }
            let x = a.new_atom(b).unwrap();
            let n = a.nil();
            a.new_concat(b.len(), &[n, x, n]).unwrap()
        }
        Enc::View => {
            let mut big = vec![0x5a, 0xa5];
            big.extend_from_slice(b);
            big.extend_from_slice(&[0xc3, 0x3c, 0x99]);
            let h = a.new_atom(&big).unwrap();
            a.new_substr(h, 2, 2 + b.len() as u32).unwrap()
        }
    }
}

pub struct Builder {
    pub sharing: Sharing,
    pub enc: Enc,
    memo: HashMap<T, NodePtr>,
    counter: usize,
}

impl Builder {
    pub fn new(sharing: Sharing, enc: Enc) -> Self {
        Builder {
            sharing,
            enc,
            memo: HashMap::new(),
            counter: 0,
        }
    }
    pub fn build(&mut self, a: &mut Allocator, t: &T) -> NodePtr {
        // iterative post-order to survive deep trees
        enum Op<'a> {
            Visit(&'a T),
            Cons(&'a T),
        }
        let mut ops = vec![Op::Visit(t)];
        let mut vals: Vec<NodePtr> = vec![];
        while let Some(op) = ops.pop() {
            match op {
                Op::Visit(t) => {
                    let share = match (self.sharing, t) {
                        (Sharing::Fresh, _) => false,
                        (Sharing::HashCons, _) => true,
                        (Sharing::Atoms, T::A(_)) => true,
                        (Sharing::Atoms, T::P(..)) => false,
                    };
                    if share {
                        if let Some(n) = self.memo.get(t) {
                            vals.push(*n);
                            continue;
                        }
                    }
                    match t {
                        T::A(b) => {
                            let enc = if self.enc == Enc::Mixed {
                                self.counter += 1;
                                ENCS[self.counter % 3]
                            } else {
                                self.enc
                            };
                            let n = mk_atom(a, b, enc);
                            if share {
                                self.memo.insert(t.clone(), n);
                            }
                            vals.push(n);
                        }
                        T::P(l, r) => {
                            ops.push(Op::Cons(t));
                            ops.push(Op::Visit(r));
                            ops.push(Op::Visit(l));
                        }
                    }
                }
                Op::Cons(t) => {
                    let r = vals.pop().unwrap();
                    let l = vals.pop().unwrap();
                    let n = a.new_pair(l, r).unwrap();
                    if self.sharing == Sharing::HashCons {
                        self.memo.insert(t.clone(), n);
                    }
                    vals.push(n);
                }
            }
        }
        vals.pop().unwrap()
    }
}

pub fn build(a: &mut Allocator, t: &T) -> NodePtr {
    Builder::new(Sharing::Fresh, Enc::Inline).build(a, t)
}

/// read a node back into a pure tree (iterative; shares Rc for shared NodePtrs)
pub fn read(a: &Allocator, n: NodePtr) -> T {
    enum Op {
        Visit(NodePtr),
        Cons(NodePtr),
    }
    let mut memo: HashMap<NodePtr, T> = HashMap::new();
    let mut ops = vec![Op::Visit(n)];
    let mut vals: Vec<T> = vec![];
    while let Some(op) = ops.pop() {
        match op {
            Op::Visit(n) => {
                if let Some(t) = memo.get(&n) {
                    vals.push(t.clone());
                    continue;
                }
                match a.sexp(n) {
                    SExp::Atom => {
                        let t = atom(a.atom(n).as_ref());
                        vals.push(t);
                    }
                    SExp::Pair(l, r) => {
                        ops.push(Op::Cons(n));
                        ops.push(Op::Visit(r));
                        ops.push(Op::Visit(l));
                    }
                }
            }
            Op::Cons(n) => {
                let r = vals.pop().unwrap();
                let l = vals.pop().unwrap();
                let t = cons(l, r);
                memo.insert(n, t.clone());
                vals.push(t);
            }
        }
    }
    vals.pop().unwrap()
}

/// serialize a node with the reference encoder without expanding shared
/// sub-trees more than necessary (still exponential for doubling families; use
/// with care)
pub fn read_ser(a: &Allocator, n: NodePtr) -> Vec<u8> {
    let mut out = vec![];
    let mut stack = vec![n];
    while let Some(n) = stack.pop() {
        match a.sexp(n) {
            SExp::Atom => ser_atom(a.atom(n).as_ref(), &mut out),
            SExp::Pair(l, r) => {
                out.push(0xff);
                stack.push(r);
                stack.push(l);
            }
        }
    }
    out
}

/// minimal two's complement big-endian encoding of an i128 (independent of the crate)
pub fn int_bytes(v: i128) -> Vec<u8> {
    if v == 0 {
        return vec![];
    }
    let mut b = v.to_be_bytes().to_vec();
    while b.len() > 1 {
        let drop = (b[0] == 0 && b[1] & 0x80 == 0) || (b[0] == 0xff && b[1] & 0x80 != 0);
        if drop {
            b.remove(0);
        } else {
            break;
        }
    }
    b
}
pub fn int_atom(v: i128) -> T {
    atom(&int_bytes(v))
}

/// parse the textual forms used in op-tests: integers, 0x.., "str", (a b . c), nil ()
pub fn parse_sexp(s: &str) -> T {
    let toks = tokenize(s);
    let mut pos = 0;
    let t = parse_tok(&toks, &mut pos);
    assert!(pos == toks.len(), "trailing tokens in {s}");
    t
}
fn tokenize(s: &str) -> Vec<String> {
    let mut out = vec![];
    let cs: Vec<char> = s.chars().collect();
    let mut i = 0;
    while i < cs.len() {
        let c = cs[i];
        if c.is_whitespace() {
            i += 1;
        } else if c == '(' || c == ')' {
            out.push(c.to_string());
            i += 1;
        } else if c == '"' {
            let mut j = i + 1;
            while cs[j] != '"' {
                j += 1;
            }
            out.push(cs[i..=j].iter().collect());
            i = j + 1;
        } else {
            let mut j = i;
            while j < cs.len() && !cs[j].is_whitespace() && cs[j] != '(' && cs[j] != ')' {
                j += 1;
            }
            out.push(cs[i..j].iter().collect());
            i = j;
        }
    }
    out
}
fn parse_tok(toks: &[String], pos: &mut usize) -> T {
    let t = &toks[*pos];
    *pos += 1;
    if t == "(" {
        let mut items = vec![];
        let mut term = nil();
        loop {
            if toks[*pos] == ")" {
                *pos += 1;
                break;
            }
            if toks[*pos] == "." {
                *pos += 1;
                term = parse_tok(toks, pos);
                assert!(toks[*pos] == ")");
                *pos += 1;
                break;
            }
            items.push(parse_tok(toks, pos));
        }
        list_t(&items, term)
    } else {
        parse_atom_tok(t)
    }
}
pub fn parse_atom_tok(t: &str) -> T {
    if let Some(h) = t.strip_prefix("0x") {
        let h = if h.len() % 2 == 1 {
            format!("0{h}")
        } else {
            h.to_string()
        };
        return atom(&hex::decode(h).unwrap());
    }
    if t.starts_with('"') {
        return atom(t[1..t.len() - 1].as_bytes());
    }
    if let Ok(v) = t.parse::<i128>() {
        return int_atom(v);
    }
    if let Ok(v) = t.parse::<num_bigint::BigInt>() {
        if v == num_bigint::BigInt::from(0) {
            return nil();
        }
        return atom(&v.to_signed_bytes_be());
    }
    panic!("cannot parse atom token {t}")
}
