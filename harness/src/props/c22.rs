// C22 — all tree-hash implementations agree with the recursive definition.
use crate::common::*;
use crate::domains::*;
use crate::refsha;
use crate::tree::{Builder, ENCS4, SHARINGS, T, TreeSpace, atom, cons, int_atom};
use clvmr::allocator::{Allocator, NodePtr};
use clvmr::chia_dialect::ClvmFlags;
use clvmr::serde::{ObjectCache, intern_tree, parse_triples, tree_hash_from_stream, treehash};
use clvmr::sha_tree_op::op_sha256_tree;
use serde_json::json;
use std::io::Cursor;

pub fn check(a: &mut Allocator, n: NodePtr, t: &T, canon: &str, acc: &mut Acc) {
    let rh = refsha::tree_hash(t);
    let ser = t.ser();
    let mut bad = |which: &str, got: Vec<u8>| {
        acc.violation(canon.to_string(), format!("{which} = {} but recursive definition = {}", hx(&got), hx(&rh)));
    };
    for flags in [ClvmFlags::empty(), ClvmFlags::NEW_COST_MODEL] {
        let args = a.new_pair(n, NodePtr::NIL).unwrap();
        match op_sha256_tree(a, args, u64::MAX, flags) {
            Ok(r) => {
                let got = a.atom(r.1).as_ref().to_vec();
                if got != rh {
                    bad("op_sha256_tree", got);
                }
            }
            Err(e) => bad(&format!("op_sha256_tree error {e}"), vec![]),
        }
        // the same operator through the dialect's dispatcher (opcode 63)
        {
            use clvmr::dialect::Dialect;
            let d = clvmr::chia_dialect::ChiaDialect::new(flags | ClvmFlags::ENABLE_SHA256_TREE);
            let opn = a.new_atom(&[63]).unwrap();
            match d.op(a, opn, args, u64::MAX, clvmr::dialect::OperatorSet::Default) {
                Ok(r) => {
                    let got = a.atom(r.1).as_ref().to_vec();
                    if got != rh {
                        bad("opcode 63 through ChiaDialect::op", got);
                    }
                }
                Err(e) => bad(&format!("opcode 63 through ChiaDialect::op error {e}"), vec![]),
            }
        }
    }
    let mut oc = ObjectCache::new(treehash);
    match oc.get_or_calculate(a, &n, None) {
        Some(h) if *h == rh => {}
        o => bad("ObjectCache treehash", o.map(|h| h.to_vec()).unwrap_or_default()),
    }
    match intern_tree(a, n) {
        Ok(it) => {
            let h = it.tree_hash();
            if h != rh {
                bad("InternedTree::tree_hash", h.to_vec());
            }
        }
        Err(e) => bad(&format!("intern_tree error {e}"), vec![]),
    }
    match tree_hash_from_stream(&mut Cursor::new(&ser[..])) {
        Ok(h) if h == rh => {}
        o => bad("tree_hash_from_stream", o.map(|h| h.to_vec()).unwrap_or_default()),
    }
    match parse_triples(&mut Cursor::new(&ser[..]), true) {
        Ok((_, Some(hs))) if hs[0] == rh => {}
        _ => bad("parse_triples hashes[0]", vec![]),
    }
    // two objects back to back on one cursor: the second call starts at a non-zero position
    {
        let mut two = ser.clone();
        two.extend_from_slice(&ser);
        let mut c = Cursor::new(&two[..]);
        for k in 1..=2u64 {
            match tree_hash_from_stream(&mut c) {
                Ok(h) if h == rh && c.position() == k * ser.len() as u64 => {}
                o => {
                    bad(&format!("tree_hash_from_stream (object {k} of 2 on one cursor, position {})", c.position()), o.map(|h| h.to_vec()).unwrap_or_default());
                    break;
                }
            }
        }
    }
    acc.inc("cases");
}

pub fn run(ctx: &Ctx) -> Report {
    let mut rep = Report::new("C22", "model_checking");
    let seed = ctx.seed;
    let ints: Vec<T> = (0..=40).map(|i| int_atom(i)).collect();
    let spaces = vec![TreeSpace::new(ctx.pick(4, 5), &atoms_t(&a6())), TreeSpace::new(ctx.pick(3, 4), &ints),
        TreeSpace::new(ctx.pick(2, 3), &atoms_t(&a24()))];
    for (si, ts) in spaces.iter().enumerate() {
        let acc = par_for(ctx, ts.total, 64, |i| format!("space{si} tree#{i}"), |i, acc| {
            thread_local! { static A: std::cell::RefCell<Allocator> = std::cell::RefCell::new(Allocator::new()); }
            let t = ts.get(i);
            A.with(|a| {
                let a = &mut a.borrow_mut();
                for sh in SHARINGS {
                    for enc in ENCS4 {
                        // big spaces: all encodings only for every tree of the int space (precomputed table is keyed on inline ints)
                        if si == 1 && sh != crate::tree::Sharing::Fresh && ts.leaves_of(i) > 2 {
                            continue;
                        }
                        let cp = a.checkpoint();
                        let n = Builder::new(sh, enc).build(a, &t);
                        check(a, n, &t, &format!("tree {} sharing={sh:?} enc={enc:?}", t.hex()), acc);
                        a.restore_checkpoint(&cp);
                    }
                }
            });
            acc.maybe_sample(sample_key(seed, i), || json!({"tree": t.hex(), "hash": hx(&refsha::tree_hash(&t))}));
        });
        rep.absorb(acc);
    }
    // doubling family
    let mut acc = Acc::default();
    let mut a = Allocator::new();
    let mut t = cons(int_atom(7), atom(&[0x80; 33]));
    for d in 1..=ctx.pick(10, 16) {
        t = cons(t.clone(), t);
        let n = Builder::new(crate::tree::Sharing::HashCons, crate::tree::Enc::Inline).build(&mut a, &t);
        check(&mut a, n, &t, &format!("doubling depth {d}"), &mut acc);
    }
    rep.absorb(acc);
    // inputs for the python arm (the wheel's sha256_treehash)
    let g = crate::props::pygen::gen_trees(ctx, "C22");
    rep.note("python_cases_file", g.notes.get("cases_file").cloned().unwrap_or_default());
    rep.evaluations = rep.acc.get("cases");
    rep.nontrivial = rep.evaluations;
    rep.states = rep.evaluations;
    rep.transitions = rep.evaluations * 8;
    rep.traces = rep.evaluations;
    rep.rule = format!("every tree of TREES({},A6), TREES({}, integers 0..40) and TREES({},A24) in sharing modes x atom representations (inline/heap/view), plus doubling; eight hash computations (op_sha256_tree directly and as opcode 63 through ChiaDialect::op, under both cost models, ObjectCache treehash, InternedTree::tree_hash, tree_hash_from_stream (also as the second object on one cursor), parse_triples) compared with sha256(1||atom)/sha256(2||l||r) computed by the independent SHA-256. The python wheel's sha256_treehash is compared by the python leg. Every case is non-trivial (a hash is computed and compared).", ctx.pick(4, 5), ctx.pick(3, 4), ctx.pick(2, 3));
    rep.trusted_base.push("harness/src/refsha.rs (constants derived from primes, self-tested)".into());
    rep
}
