// C07 — restriction flags only remove successes; RELAXED_BLS only adds.
use crate::common::*;
use crate::domains::*;
use crate::progspace::*;
use crate::tree::{Enc, T};
use clvmr::chia_dialect::{ClvmFlags, MEMPOOL_MODE};
use serde_json::json;
use std::collections::HashMap;

const CEILING: u64 = 1 << 34;
pub const RESTRICT: [ClvmFlags; 6] = [ClvmFlags::NO_UNKNOWN_OPS, ClvmFlags::CANONICAL_INTS, ClvmFlags::DISABLE_OP, ClvmFlags::LIMIT_SOFTFORK, ClvmFlags::LIMITS, ClvmFlags::LIMIT_HEAP];

fn check_case(prog: &T, env: &T, bases: &[ClvmFlags], acc: &mut Acc, space: &str) {
    // two loaded copies: unlimited allocator and the wheel's LIMIT_HEAP allocator (500,000,000 bytes)
    with_loaded_limit(prog, env, Enc::Inline, u32::MAX as usize, |lu| {
        with_loaded_limit(prog, env, Enc::Inline, 500_000_000, |ll| {
            let mut memo: HashMap<u32, Outcome> = HashMap::new();
            let mut get = |f: ClvmFlags, budget: u64, acc: &mut Acc| -> Outcome {
                if budget == CEILING {
                    if let Some(o) = memo.get(&f.bits()) {
                        return o.clone();
                    }
                }
                let o = if f.contains(ClvmFlags::LIMIT_HEAP) { ll.run_flags(f, budget) } else { lu.run_flags(f, budget) };
                acc.inc("runs");
                if budget == CEILING {
                    memo.insert(f.bits(), o.clone());
                }
                o
            };
            for base in bases {
                let ob = get(*base, CEILING, acc);
                if ob.panicked {
                    acc.violation(format!("prog={} env={} flags={:#x}", prog.hex(), env.hex(), base.bits()), format!("[{space}] panic: {}", ob.err));
                    continue;
                }
                for mask in 1u32..64 {
                    let mut r = ClvmFlags::empty();
                    for (i, f) in RESTRICT.iter().enumerate() {
                        if mask & (1 << i) != 0 {
                            r |= *f;
                        }
                    }
                    if base.contains(r) {
                        continue;
                    }
                    let or = get(*base | r, CEILING, acc);
                    acc.inc("comparisons");
                    let canon = format!("prog={} env={} base={:#x} restrict={:#x}", prog.hex(), env.hex(), base.bits(), r.bits());
                    if or.panicked {
                        acc.violation(canon, format!("[{space}] panic: {}", or.err));
                        continue;
                    }
                    if or.ok {
                        if !ob.ok {
                            // classification of one specific defect (known finding F-C07-softfork-noncanonical-ext)
                            if r.contains(ClvmFlags::CANONICAL_INTS) && !(*base | r).contains(ClvmFlags::NO_UNKNOWN_OPS) {
                                if let Some((which, ext)) = noncanonical_guard_arg(prog) {
                                    acc.violation(format!("softfork {which} argument {} is a non-canonical integer: with CANONICAL_INTS but without NO_UNKNOWN_OPS the guard is accepted as an unknown extension", hx(&ext)), format!("[{space}] {canon}: {} vs {}", or.brief(), ob.brief()));
                                    acc.inc("known_class_occurrences");
                                    continue;
                                }
                            }
                            acc.violation(canon, format!("[{space}] succeeds with restriction flags ({}) but fails without them ({})", or.brief(), ob.brief()));
                        } else if or.cost != ob.cost || or.digest != ob.digest {
                            if r.contains(ClvmFlags::CANONICAL_INTS) && !(*base | r).contains(ClvmFlags::NO_UNKNOWN_OPS) {
                                if let Some((which, ext)) = noncanonical_guard_arg(prog) {
                                    acc.violation(format!("softfork {which} argument {} is a non-canonical integer: with CANONICAL_INTS but without NO_UNKNOWN_OPS the guard is accepted as an unknown extension", hx(&ext)), format!("[{space}] {canon}: {} vs {}", or.brief(), ob.brief()));
                                    acc.inc("known_class_occurrences");
                                    continue;
                                }
                            }
                            acc.violation(canon, format!("[{space}] restriction flags change a successful outcome: {} vs {}", or.brief(), ob.brief()));
                        } else {
                            acc.inc("restricted_successes_equal");
                        }
                    } else if ob.ok {
                        acc.inc("successes_removed");
                    }
                }
                // RELAXED_BLS never removes or changes a success
                if !base.contains(ClvmFlags::RELAXED_BLS) {
                    let ox = get(*base | ClvmFlags::RELAXED_BLS, CEILING, acc);
                    acc.inc("comparisons");
                    if ob.ok && (!ox.ok || ox.cost != ob.cost || ox.digest != ob.digest) {
                        acc.violation(format!("prog={} env={} base={:#x} +RELAXED_BLS", prog.hex(), env.hex(), base.bits()), format!("[{space}] RELAXED_BLS changes a success: {} vs {}", ox.brief(), ob.brief()));
                    }
                    if !ob.ok && ox.ok {
                        acc.inc("relaxed_bls_added_success");
                    }
                }
                // mempool mode as a whole, and the budget equal to the cost
                let om = get(*base | MEMPOOL_MODE, CEILING, acc);
                if om.ok && ob.ok {
                    // the tightest budget: whatever mempool mode accepts with budget == its cost, the base flags
                    // accept with that same budget and cost (a grandfathered guard may make BOTH fail here:
                    // its declared cost, not its actual cost, must fit the budget)
                    let ocm = get(*base | MEMPOOL_MODE, om.cost, acc);
                    let oc = get(*base, om.cost, acc);
                    if ocm.ok && (!oc.ok || oc.cost != ocm.cost || oc.digest != ocm.digest) {
                        acc.violation(format!("prog={} env={} base={:#x} mempool-cost-budget", prog.hex(), env.hex(), base.bits()), format!("[{space}] accepted in mempool mode with budget == cost {} but the base flags with that budget give {}", om.cost, oc.brief()));
                    }
                }
            }
        })
    })
}

/// if the program contains a guard (36 COST (q . EXT) ...) whose EXT is a non-canonical integer atom, return EXT
/// the first softfork guard in the program whose declared-cost or extension argument is a quoted atom that is a
/// non-canonical unsigned integer (a leading zero byte that is not needed as a sign byte)
fn noncanonical_guard_arg(t: &T) -> Option<(&'static str, Vec<u8>)> {
    fn noncanon(b: &[u8]) -> bool {
        !b.is_empty() && b[0] == 0 && (b.len() == 1 || b[1] & 0x80 == 0)
    }
    fn quoted_atom(t: &T) -> Option<&[u8]> {
        if let T::P(q, v) = t {
            if let (T::A(qb), T::A(vb)) = (&**q, &**v) {
                if qb[..] == [1] {
                    return Some(&vb[..]);
                }
            }
        }
        None
    }
    match t {
        T::A(_) => None,
        T::P(l, r) => {
            if let (T::A(op), T::P(cost, rest)) = (&**l, &**r) {
                if op[..] == [36] {
                    if let Some(cb) = quoted_atom(cost) {
                        if noncanon(cb) {
                            return Some(("declared-cost", cb.to_vec()));
                        }
                    }
                    if let T::P(ext, _) = &**rest {
                        if let Some(vb) = quoted_atom(ext) {
                            if noncanon(vb) {
                                return Some(("extension", vb.to_vec()));
                            }
                        }
                    }
                }
            }
            noncanonical_guard_arg(l).or_else(|| noncanonical_guard_arg(r))
        }
    }
}

pub fn run(ctx: &Ctx) -> Report {
    let mut rep = Report::new("C07", "exploration");
    let enables = ClvmFlags::ENABLE_KECCAK_OPS_OUTSIDE_GUARD | ClvmFlags::ENABLE_SHA256_TREE | ClvmFlags::ENABLE_SECP_OPS;
    let bases: Vec<ClvmFlags> = if ctx.quick() {
        vec![ClvmFlags::empty(), ClvmFlags::NEW_COST_MODEL | ClvmFlags::ENABLE_GC | ClvmFlags::MALACHITE | enables]
    } else {
        let mut v = vec![];
        for m in [ClvmFlags::empty(), ClvmFlags::NEW_COST_MODEL, ClvmFlags::MALACHITE, ClvmFlags::NEW_COST_MODEL | ClvmFlags::MALACHITE] {
            for e in [ClvmFlags::empty(), enables] {
                for g in [ClvmFlags::empty(), ClvmFlags::ENABLE_GC] {
                    v.push(m | e | g);
                }
            }
        }
        v
    };
    let ops = { let mut o = all_single_byte_ops(); o.extend(multibyte_ops()); o };
    let spaces: Vec<ProgSpace> = vec![
        p_vectors(ctx.pick(2, 6)),
        p1("P1", ops, ctx.pick(vec![vec![], vec![1], vec![0x00], vec![0x00, 0x01], vec![0x80]], a12()), vec![vec![2u8], vec![11]], 2),
        p_limits(!ctx.quick()),
        if ctx.quick() { p5_thin() } else { p5_full() },
        p_guard_args(),
        p_guard_then_op(),
        p4(ctx.pick(6, 30), false),
    ];
    let seed = ctx.seed;
    let mut notes = vec![];
    for sp in &spaces {
        let t_space = std::time::Instant::now();
        let acc = par_for(ctx, sp.total, 8, |i| { let (p, e) = sp.at(i); format!("prog={} env={}", p.hex(), e.hex()) }, |i, acc| {
            let (p, e) = sp.at(i);
            check_case(&p, &e, &bases, acc, &sp.name);
            acc.inc("programs");
            acc.maybe_sample(sample_key(seed, i ^ fnv(sp.name.as_bytes())), || json!({"space": sp.name, "prog": p.hex()}));
        });
        notes.push(json!({"space": sp.name, "wall_s": t_space.elapsed().as_secs_f64(), "programs": sp.total}));
        rep.absorb(acc);
    }
    rep.note("spaces", json!(notes));
    rep.note("bases", json!(bases.iter().map(|b| format!("{:#x}", b.bits())).collect::<Vec<_>>()));
    rep.evaluations = rep.acc.get("comparisons");
    rep.nontrivial = rep.acc.get("restricted_successes_equal") + rep.acc.get("successes_removed");
    rep.states = rep.acc.get("programs");
    rep.transitions = rep.acc.get("runs");
    rep.traces = rep.acc.get("comparisons");
    rep.rule = format!("every program of PV (repository vectors for every operator), P1 (all opcodes, constants incl. non-canonical integers), LIMITS (arithmetic and BLS multiply over operands just below/at/above 256, 1024, 2048 bytes), P5 (guards) and P4 x {} base flag sets x ALL 63 non-empty subsets of {{NO_UNKNOWN_OPS, CANONICAL_INTS, DISABLE_OP, LIMIT_SOFTFORK, LIMITS, LIMIT_HEAP (allocator limited to 500,000,000 bytes as in the wheel)}}; oracle: success under F|R implies the same (cost, result) under F; F|RELAXED_BLS reproduces every success of F; a mempool-mode success is a consensus success at a budget equal to its cost. Budget ceiling 2^34. Non-trivial = comparisons where the restricted run succeeded (compared equal) or a success was removed.", bases.len());
    rep
}
