// C21 — serde_2026 varints are a bijection with strict minimality.
use crate::common::*;
use clvmr::serde_2026::{read_varint, write_varint};
use serde_json::json;
use std::io::Cursor;

/// reference decoder: (value, consumed, is_shortest) or None on error
pub fn ref_decode(b: &[u8]) -> Option<(i64, usize, bool)> {
    let f = *b.first()?;
    let mut l = 0usize;
    while l < 8 && f & (0x80 >> l) != 0 {
        l += 1;
    }
    if l >= 8 {
        return None;
    }
    if b.len() < 1 + l {
        return None;
    }
    let bits = 7 + 7 * l as u32;
    let mut u: u128 = (f as u128) & ((1u128 << (7 - l)) - 1);
    for x in &b[1..1 + l] {
        u = (u << 8) | *x as u128;
    }
    let v: i128 = if u >= 1u128 << (bits - 1) {
        u as i128 - (1i128 << bits)
    } else {
        u as i128
    };
    let shortest = ref_len(v as i64) == 1 + l;
    Some((v as i64, 1 + l, shortest))
}
pub fn ref_len(v: i64) -> usize {
    for l in 0..8usize {
        let bits = 7 + 7 * l as u32;
        let lo = -(1i128 << (bits - 1));
        let hi = (1i128 << (bits - 1)) - 1;
        if (v as i128) >= lo && (v as i128) <= hi {
            return 1 + l;
        }
    }
    9
}
pub fn ref_encode(v: i64) -> Vec<u8> {
    let n = ref_len(v);
    assert!(n <= 8);
    let l = n - 1;
    let bits = 7 + 7 * l as u32;
    let u: u128 = if v < 0 {
        (v as i128 + (1i128 << bits)) as u128
    } else {
        v as u128
    };
    let mut out = vec![0u8; n];
    for i in 0..n {
        out[n - 1 - i] = (u >> (8 * i)) as u8;
    }
    // first byte: l ones, a zero, then 7-l value bits
    let prefix: u8 = if l == 0 { 0 } else { (0xffu16 << (8 - l)) as u8 };
    out[0] = prefix | (out[0] & ((1u16 << (7 - l)) - 1) as u8);
    out
}

fn check_string(s: &[u8], acc: &mut Acc) {
    let r = ref_decode(s);
    for strict in [false, true] {
        let mut c = Cursor::new(s);
        let got = read_varint(&mut c, strict);
        let pos = c.position() as usize;
        let expect = match r {
            None => None,
            Some((v, n, shortest)) => {
                if strict && !shortest {
                    None
                } else {
                    Some((v, n))
                }
            }
        };
        match (&got, expect) {
            (Ok(v), Some((ev, en))) => {
                if *v != ev || pos != en {
                    acc.violation(
                        format!("decode {} strict={}", hx(s), strict),
                        format!("got value {v} cursor {pos}, reference value {ev} consumed {en}"),
                    );
                }
                acc.inc("accepted");
                if strict {
                    acc.inc("accepted_strict");
                } else {
                    acc.inc("accepted_lenient");
                    if let Some((_, _, false)) = r {
                        acc.inc("accepted_overlong_lenient");
                    }
                }
            }
            (Err(_), None) => {
                acc.inc("rejected");
            }
            (Ok(v), None) => acc.violation(
                format!("decode {} strict={}", hx(s), strict),
                format!("accepted value {v}, reference rejects"),
            ),
            (Err(e), Some((ev, _))) => acc.violation(
                format!("decode {} strict={}", hx(s), strict),
                format!("rejected ({e}), reference accepts value {ev}"),
            ),
        }
        // environment deviation: the same bytes through a reader that answers every read with at most 1 (2)
        // bytes — a legal `Read`; value, acceptance and bytes consumed must not depend on how reads are split
        if s.len() >= 2 {
            for chunk in [1usize, 2] {
                let mut cr = ChunkReader::new(s, chunk);
                let g2 = read_varint(&mut cr, strict);
                let same = match (&got, &g2) {
                    (Ok(a), Ok(b)) => a == b && cr.pos == pos,
                    (Err(_), Err(_)) => true,
                    _ => false,
                };
                if !same {
                    acc.violation(format!("decode {} strict={} reader answering {chunk} byte(s) per read", hx(s), strict), format!("short reads change the outcome: whole-slice reader {:?} at {pos}, chunked reader {:?} at {}", got.as_ref().map_err(|e| e.to_string()), g2.as_ref().map_err(|e| e.to_string()), cr.pos));
                }
                acc.inc("short_read_decodes");
            }
        }
    }
}

fn check_value(v: i64, acc: &mut Acc) {
    let mut out = Vec::new();
    write_varint(&mut out, v).unwrap();
    let exp = ref_encode(v);
    if out != exp {
        acc.violation(
            format!("encode {v}"),
            format!("got {} reference {}", hx(&out), hx(&exp)),
        );
    }
    // short writes: a writer that accepts one byte per call must receive the same bytes
    let mut cw = ChunkWriter { out: vec![], chunk: 1 };
    match write_varint(&mut cw, v) {
        Ok(()) if cw.out == out => {}
        other => acc.violation(format!("encode {v} into a writer accepting 1 byte per write"), format!("{other:?}: got {} expected {}", hx(&cw.out), hx(&out))),
    }
    for strict in [false, true] {
        let mut c = Cursor::new(&out[..]);
        match read_varint(&mut c, strict) {
            Ok(r) if r == v && c.position() as usize == out.len() => {}
            other => acc.violation(
                format!("roundtrip {v} strict={strict}"),
                format!("{other:?} cursor {}", c.position()),
            ),
        }
    }
    acc.inc("values");
}

pub fn run(ctx: &Ctx) -> Report {
    let mut rep = Report::new("C21", "model_checking");
    // 1. all byte strings up to length L
    let full_len = ctx.pick(3, 4);
    let total: u64 = (0..=full_len).map(|l| 256u64.pow(l as u32)).sum();
    let seed = ctx.seed;
    let acc = par_for(
        ctx,
        total,
        1 << 16,
        |i| format!("bytes#{i}"),
        |i, acc| {
            let mut s = Vec::with_capacity(4);
            crate::domains::nth_bytes_upto(&crate::domains::all_bytes(), full_len, i, &mut s);
            check_string(&s, acc);
            acc.maybe_sample(sample_key(seed, i), || json!({"bytes": hx(&s), "ref": format!("{:?}", ref_decode(&s))}));
        },
    );
    rep.evaluations += total * 2;
    rep.absorb(acc);
    // 2. quick: 4-byte strings on a lattice: every first byte x every 2^20-th tail... use first byte x {tails over 16-value alphabet}
    if ctx.quick() {
        let alpha: Vec<u8> = vec![0, 1, 2, 0x3f, 0x40, 0x41, 0x7f, 0x80, 0x81, 0xbf, 0xc0, 0xc1, 0xdf, 0xe0, 0xfe, 0xff];
        let n = 256u64 * 16u64.pow(3);
        let acc = par_for(ctx, n, 1 << 14, |i| format!("lattice4#{i}"), |i, acc| {
            let mut s = vec![0u8; 4];
            s[0] = (i >> 12) as u8;
            s[1] = alpha[((i >> 8) & 15) as usize];
            s[2] = alpha[((i >> 4) & 15) as usize];
            s[3] = alpha[(i & 15) as usize];
            check_string(&s, acc);
        });
        rep.evaluations += n * 2;
        rep.absorb(acc);
    }
    // 3. lengths 5..=9: first byte x {00,01,7f,80,ff}^(n-1)
    {
        let alpha = [0x00u8, 0x01, 0x7f, 0x80, 0xff];
        for n in 5..=9usize {
            let cnt = 256u64 * 5u64.pow((n - 1) as u32);
            let acc = par_for(ctx, cnt, 1 << 14, |i| format!("long{n}#{i}"), |i, acc| {
                let mut s = vec![0u8; n];
                let mut r = i;
                for j in (1..n).rev() {
                    s[j] = alpha[(r % 5) as usize];
                    r /= 5;
                }
                s[0] = r as u8;
                check_string(&s, acc);
            });
            rep.evaluations += cnt * 2;
            rep.absorb(acc);
        }
    }
    // 4. values
    let vb: i64 = ctx.pick(1 << 21, 1 << 27);
    let nvals = (2 * vb) as u64;
    let acc = par_for(ctx, nvals, 1 << 16, |i| format!("value {}", i as i64 - vb), |i, acc| {
        check_value(i as i64 - vb, acc);
    });
    rep.evaluations += nvals;
    rep.absorb(acc);
    // 5. boundary lattice +-2^k +- d
    let mut lattice = vec![];
    for k in 0..=55u32 {
        for d in -2i64..=2 {
            for s in [1i64, -1] {
                let v = (s as i128) * (1i128 << k) + d as i128;
                if v >= -(1i128 << 55) && v < (1i128 << 55) {
                    lattice.push(v as i64);
                }
            }
        }
    }
    lattice.sort();
    lattice.dedup();
    let mut acc = Acc::default();
    for v in &lattice {
        guarded(&mut acc, &format!("value {v}"), |acc| check_value(*v, acc));
    }
    // out-of-range values: documented panic
    for v in [1i64 << 55, -(1i64 << 55) - 1, i64::MAX, i64::MIN] {
        let r = std::panic::catch_unwind(|| {
            let mut out = Vec::new();
            write_varint(&mut out, v).map(|_| out)
        });
        match r {
            Err(_) => acc.inc("out_of_range_panics_as_documented"),
            Ok(o) => acc.violation(format!("encode {v}"), format!("out-of-range value did not panic: {o:?}")),
        }
    }
    rep.evaluations += lattice.len() as u64 + 4;
    rep.absorb(acc);

    rep.nontrivial = rep.acc.get("accepted_lenient") + rep.acc.get("values");
    rep.states = rep.evaluations;
    rep.transitions = rep.evaluations;
    rep.traces = rep.evaluations;
    rep.rule = format!(
        "every byte string of length <= {full_len} (plus boundary lattices up to 9 bytes) decoded strict and lenient and compared with an independent varint decoder (value, consumed length, shortest-form acceptance), and again through readers that answer every read with at most 1 / 2 bytes (short-read deviation: same outcome and consumption); every value in [-{vb},{vb}) and the lattice +-2^k+-d (k<=55) encoded, compared with an independent encoder and decoded back. Non-trivial = distinct byte strings the lenient decoder accepts + distinct values round-tripped."
    );
    rep.note("full_byte_length", json!(full_len));
    rep.note("value_bound", json!(vb));
    rep.assumptions.push("reference varint codec in props/c21.rs written from docs/serde-2026.md".into());
    rep
}
