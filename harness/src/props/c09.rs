// C09 — unknown operators follow the published opcode cost rule.
use crate::common::*;
use crate::domains::*;
use crate::opspace::*;
use crate::progspace::fresh_allocator;
use clvmr::allocator::{Allocator, NodePtr};
use clvmr::chia_dialect::ClvmFlags;
use serde_json::json;

/// independent classification of assigned single-byte opcodes (with no enabling flags)
fn assigned(op: &[u8]) -> bool {
    if op.len() == 4 && (op == [0x13, 0xd6, 0x1f, 0x00] || op == [0x1c, 0x3a, 0x8f, 0x00]) {
        return true;
    }
    if op.len() != 1 {
        return false;
    }
    let o = op[0];
    (1..=14).contains(&o) || (16..=27).contains(&o) || o == 29 || o == 30 || (32..=34).contains(&o) || o == 36 || (48..=61).contains(&o)
}

#[derive(Debug, PartialEq)]
enum Exp {
    Fail,
    Cost(u64),
}

/// the published rule, in u128
fn rule(op: &[u8], sizes: &[Option<u64>], new_model: bool, budget: u64) -> Exp {
    if op.is_empty() || (op.len() >= 2 && op[0] == 0xff && op[1] == 0xff) || op.len() > 5 {
        return Exp::Fail;
    }
    let cf = op[op.len() - 1] >> 6;
    let mut mult: u128 = 0;
    for b in &op[..op.len() - 1] {
        mult = (mult << 8) | *b as u128;
    }
    mult += 1;
    let need_atoms = cf != 0;
    let mut lens = vec![];
    for s in sizes {
        match s {
            Some(l) => lens.push(*l as u128),
            None => {
                if need_atoms {
                    return Exp::Fail;
                }
                lens.push(0)
            }
        }
    }
    let base: u128 = match cf {
        0 => 1,
        1 => {
            if new_model {
                let mut c = 99u128;
                let mut acc = 0u128;
                for l in &lens {
                    c += 500 + acc.max(*l) * 4;
                    acc = acc.max(*l);
                }
                c
            } else {
                99 + lens.len() as u128 * 320 + lens.iter().sum::<u128>() * 3
            }
        }
        2 => {
            let (b0, div) = if new_model { (2000u128, 16u128) } else { (92, 128) };
            let mut c = b0;
            if !lens.is_empty() {
                let mut l0 = lens[0];
                if new_model {
                    c += l0 * 6;
                }
                for l in &lens[1..] {
                    c += 885 + (l0 + l) * 6 + (l0 * l) / div;
                    l0 += l;
                }
            }
            c
        }
        _ => 142 + lens.len() as u128 * 135 + lens.iter().sum::<u128>() * 3,
    };
    if base > budget as u128 {
        return Exp::Fail;
    }
    let total = base * mult;
    if total > u32::MAX as u128 {
        return Exp::Fail;
    }
    Exp::Cost(total as u64)
}

struct Pool {
    a: Allocator,
    atoms: Vec<(u64, NodePtr)>,
    pair: NodePtr,
}
thread_local! { static POOL: std::cell::RefCell<Option<Pool>> = const { std::cell::RefCell::new(None) }; }

fn with_pool<R>(sizes: &[u64], f: impl FnOnce(&mut Pool) -> R) -> R {
    POOL.with(|p| {
        let mut p = p.borrow_mut();
        if p.is_none() {
            let mut a = fresh_allocator(u32::MAX as usize);
            let mut atoms = vec![];
            for s in sizes {
                let buf = vec![0x5au8; *s as usize];
                atoms.push((*s, a.new_atom(&buf).unwrap()));
            }
            let pair = a.new_pair(NodePtr::NIL, NodePtr::NIL).unwrap();
            *p = Some(Pool { a, atoms, pair });
        }
        f(p.as_mut().unwrap())
    })
}

/// argument vector: indices into the pool (last index = pair), with an optional atom terminator
fn check(op: &[u8], argv: &[usize], term_atom: bool, pool_sizes: &[u64], acc: &mut Acc) {
    with_pool(pool_sizes, |p| {
        let cp = p.a.checkpoint();
        let o = p.a.new_atom(op).unwrap();
        let mut args = if term_atom { p.atoms[1].1 } else { NodePtr::NIL };
        let mut sizes = vec![];
        for i in argv.iter().rev() {
            let n = if *i == p.atoms.len() { p.pair } else { p.atoms[*i].1 };
            args = p.a.new_pair(n, args).unwrap();
        }
        for i in argv {
            sizes.push(if *i == p.atoms.len() { None } else { Some(p.atoms[*i].0) });
        }
        for new_model in [false, true] {
            let flags = if new_model { ClvmFlags::NEW_COST_MODEL } else { ClvmFlags::empty() };
            // budgets: unlimited, base, base-1 (base = the rule's pre-multiplier cost when defined)
            let unlimited = rule(op, &sizes, new_model, u64::MAX);
            let mut budgets = vec![u64::MAX];
            if let Exp::Cost(_) = unlimited {
                // find the base by evaluating the rule with multiplier stripped
                let mut op0 = vec![op[op.len() - 1]];
                if op0[0] == 0xff && false {
                    op0[0] = 0;
                }
                if let Exp::Cost(b) = rule(&op0, &sizes, new_model, u64::MAX) {
                    budgets.push(b);
                    if b > 1 {
                        budgets.push(b - 1);
                    }
                }
            }
            for b in budgets {
                let exp = rule(op, &sizes, new_model, b);
                let got = call_op(&mut p.a, o, args, flags, b);
                acc.inc("calls");
                let canon = || format!("opcode={} arg_sizes={:?} atom_terminator={term_atom} new_cost_model={new_model} budget={b}", hx(op), sizes);
                if got.panicked {
                    acc.violation(canon(), format!("panic: {}", got.err));
                    continue;
                }
                match (&exp, got.ok) {
                    (Exp::Cost(c), true) => {
                        if got.cost != *c || got.digest != crate::progspace::atom_digest(&[]) {
                            acc.violation(canon(), format!("rule gives nil with cost {c}, implementation {}", got.brief()));
                        } else {
                            acc.inc("matched_cost");
                        }
                    }
                    (Exp::Fail, false) => acc.inc("matched_failure"),
                    (Exp::Cost(c), false) => acc.violation(canon(), format!("rule gives cost {c}, implementation fails: {}", got.err)),
                    (Exp::Fail, true) => {
                        // classification of the known pre-hard-fork wrap-around (F-C09-wrapping-mul): the full product exceeds 2^64
                        let full = full_product(op, &sizes, new_model);
                        if !new_model && full >= (1u128 << 64) {
                            acc.violation(format!("pre-hard-fork op_unknown wrapping multiplication: opcode={} arg_sizes={:?}", hx(op), sizes), format!("(multiplier+1) x base = {full} overflows 64 bits, wraps to {} and is accepted", got.cost));
                            acc.inc("known_class_occurrences");
                        } else {
                            acc.violation(canon(), format!("rule says failure, implementation succeeds with cost {}", got.cost));
                        }
                    }
                }
            }
            // strict mode: every unassigned operator fails
            let strict = call_op(&mut p.a, o, args, flags | ClvmFlags::NO_UNKNOWN_OPS, u64::MAX);
            acc.inc("calls");
            if strict.ok {
                acc.violation(format!("strict opcode={} arg_sizes={:?}", hx(op), sizes), format!("unassigned operator succeeds in strict mode: {}", strict.brief()));
            }
        }
        p.a.restore_checkpoint(&cp);
    })
}

fn full_product(op: &[u8], sizes: &[Option<u64>], new_model: bool) -> u128 {
    let mut op0 = vec![op[op.len() - 1]];
    op0[0] &= 0xc0;
    let base = match rule(&op0, sizes, new_model, u64::MAX) {
        Exp::Cost(b) => b as u128,
        Exp::Fail => {
            // base itself above 2^32: recompute without the cap by scaling a 1-multiplier opcode is not possible; approximate via sizes
            let lens: Vec<u128> = sizes.iter().map(|s| s.unwrap_or(0) as u128).collect();
            match op0[0] >> 6 {
                1 => 99 + lens.len() as u128 * 320 + lens.iter().sum::<u128>() * 3,
                2 => {
                    let mut c = 92u128;
                    if !lens.is_empty() {
                        let mut l0 = lens[0];
                        for l in &lens[1..] {
                            c += 885 + (l0 + l) * 6 + (l0 * l) / 128;
                            l0 += l;
                        }
                    }
                    c
                }
                3 => 142 + lens.len() as u128 * 135 + lens.iter().sum::<u128>() * 3,
                _ => 1,
            }
        }
    };
    let mut mult: u128 = 0;
    for b in &op[..op.len() - 1] {
        mult = (mult << 8) | *b as u128;
    }
    base * (mult + 1)
}

pub fn run(ctx: &Ctx) -> Report {
    let mut rep = Report::new("C09", "model_checking");
    let pool_sizes: Vec<u64> = ctx.pick(vec![0, 1, 2, 63, 64, 1000, 1 << 20], vec![0, 1, 2, 63, 64, 1000, 1 << 20, 1 << 26]);
    let np = pool_sizes.len();
    // argument vectors: arity 0..=3 over pool indices + pair index
    let mut argvs: Vec<Vec<usize>> = vec![vec![]];
    let mut cur: Vec<Vec<usize>> = vec![vec![]];
    for _ in 0..3 {
        let mut nx = vec![];
        for v in &cur {
            for i in 0..=np {
                let mut q = v.clone();
                q.push(i);
                nx.push(q);
            }
        }
        argvs.extend(nx.iter().cloned());
        cur = nx;
    }
    // thin the argument vectors for the big opcode space; full for a core set of opcodes
    let thin: Vec<Vec<usize>> = argvs.iter().filter(|v| v.len() <= 1 || v.iter().all(|i| *i == 1 || *i == 4 || *i == np || *i == np - 1)).cloned().collect();
    let seed = ctx.seed;
    // space 1: every opcode of 1 and 2 bytes
    let all = all_bytes();
    let n_ops = count_bytes_upto(256, 2);
    let na = thin.len() as u64;
    let ps = pool_sizes.clone();
    let acc = par_for(ctx, n_ops * na, 256, |i| format!("BYTES2 opcode#{} argv#{}", i / na, i % na), |i, acc| {
        let mut op = vec![];
        nth_bytes_upto(&all, 2, i / na, &mut op);
        if assigned(&op) {
            acc.inc("assigned_skipped");
            return;
        }
        check(&op, &thin[(i % na) as usize], false, &ps, acc);
        acc.inc("cases");
        acc.maybe_sample(sample_key(seed, i), || json!({"opcode": hx(&op), "argv_pool_indices": thin[(i % na) as usize]}));
    });
    rep.absorb(acc);
    // space 2: opcodes up to 6 bytes over a 10-byte alphabet, with the full argument-vector set on a lattice
    let alpha: [u8; 10] = [0x00, 0x01, 0x3f, 0x40, 0x7f, 0x80, 0xbf, 0xc0, 0xfe, 0xff];
    let maxlen = ctx.pick(4usize, 6);
    let n2 = count_bytes_upto(10, maxlen);
    let core: Vec<Vec<usize>> = vec![vec![], vec![1], vec![4, 4], vec![np], vec![np - 1, np - 1]];
    let nc = core.len() as u64;
    let ps = pool_sizes.clone();
    let acc = par_for(ctx, n2 * nc, 256, |i| format!("A10 opcode#{}", i / nc), |i, acc| {
        let mut op = vec![];
        nth_bytes_upto(&alpha, maxlen, i / nc, &mut op);
        if assigned(&op) {
            return;
        }
        check(&op, &core[(i % nc) as usize], (i % 7) == 3, &ps, acc);
        acc.inc("cases");
    });
    rep.absorb(acc);
    // space 3: core opcodes x every argument vector (and atom terminators)
    let core_ops: Vec<Vec<u8>> = vec![vec![0x00], vec![0x40], vec![0x80], vec![0xc0], vec![0x0f], vec![0x7f], vec![0xbf], vec![0xff], vec![0x01, 0x40], vec![0xff, 0x80], vec![0x00, 0xff, 0xc0], vec![0x0f, 0xff, 0xff, 0x81], vec![0x7f, 0xff, 0xff, 0xff, 0xc1], vec![0xff, 0xfe, 0xff, 0xff, 0x40], vec![0x13, 0xd6, 0x1f, 0x01], vec![0x13, 0xd6, 0x1f, 0x40]];
    let nv = argvs.len() as u64;
    let ps = pool_sizes.clone();
    let acc = par_for(ctx, core_ops.len() as u64 * nv * 2, 64, |i| format!("core#{i}"), |i, acc| {
        let op = &core_ops[(i / (nv * 2)) as usize];
        check(op, &argvs[((i / 2) % nv) as usize], i % 2 == 1, &ps, acc);
        acc.inc("cases");
    });
    rep.absorb(acc);
    // space 4: the overflow corner: multipliers around 2^64 / base for large bases (pre-hard-fork wrap)
    {
        let mut acc = Acc::default();
        // bases built from the two largest atoms of the pool
        let bigs: Vec<usize> = if np >= 2 { vec![np - 1, np - 2] } else { vec![np - 1] };
        let mut argvs_c: Vec<Vec<usize>> = vec![];
        for b in &bigs {
            argvs_c.push(vec![*b]);
            argvs_c.push(vec![*b, *b]);
            argvs_c.push(vec![*b, *b, *b]);
        }
        if bigs.len() == 2 {
            argvs_c.push(vec![bigs[0], bigs[1]]);
        }
        for cf in [1u8, 2, 3] {
            for argv in &argvs_c {
                let sizes: Vec<Option<u64>> = argv.iter().map(|i| Some(pool_sizes[*i])).collect();
                let base = full_product(&[cf << 6], &sizes, false);
                if base < 2 {
                    continue;
                }
                let mut mults: Vec<u128> = vec![];
                // boundary of the 2^32-1 limit and of 64-bit overflow
                let q32 = (1u128 << 32) / base;
                let q64 = (1u128 << 64) / base;
                for d in 0..=2u128 {
                    mults.extend([q32 + d, q32.saturating_sub(d), q64 + d, q64.saturating_sub(d)]);
                }
                mults.extend([(1u128 << 32) - 1, (1u128 << 32)]);
                // every multiplier m1 < 2^32 whose product wraps around k times and lands at or below 2^32-1
                let kmax = ((base << 32) >> 64).min(200_000);
                for k in 1..=kmax {
                    let m1 = ((k << 64) + base - 1) / base;
                    if m1 <= (1u128 << 32) && m1 * base - (k << 64) <= u32::MAX as u128 {
                        mults.push(m1);
                    }
                }
                mults.sort();
                mults.dedup();
                for m1 in mults {
                    if m1 == 0 || m1 > (1u128 << 32) {
                        continue;
                    }
                    let m = (m1 - 1) as u32;
                    let mut op = m.to_be_bytes().to_vec();
                    while !op.is_empty() && op[0] == 0 {
                        op.remove(0);
                    }
                    op.push(cf << 6);
                    if op.len() >= 2 && op[0] == 0xff && op[1] == 0xff {
                        continue;
                    }
                    check(&op, argv, false, &pool_sizes, &mut acc);
                    acc.inc("cases");
                    acc.inc("overflow_corner_cases");
                }
            }
        }
        rep.absorb(acc);
    }
    // space 5: unassigned / not-enabled operators INSIDE softfork guards whose innermost extension enables nothing
    // (extension 0, also nested in guards of extension 0 / 1 / an unknown extension): they must still be plain
    // unknown operators priced by the rule. Whole programs through run_program against the reference interpreter
    // (which knows no extension operators at all); declared guard costs are computed by the reference.
    {
        use crate::progspace::{t_digest, with_loaded};
        use crate::props::c01::adapters;
        use crate::refvm::Vm;
        use crate::tree::{Enc, T, atom, list, nil, quote};
        let mut acc = Acc::default();
        let ops: Vec<Vec<u8>> = vec![vec![62], vec![63], vec![64], vec![65], vec![0x13, 0xd6, 0x1f, 0x01], vec![0x1c, 0x3a, 0x8f, 0x3f], vec![0x3c, 0x3f], vec![0x80]];
        let argsets: Vec<Vec<T>> = vec![vec![quote(atom(b"foobar"))], vec![], vec![quote(atom(b"a")), quote(atom(b"bb"))]];
        let ref_cost = |p: &T| -> Option<u128> {
            let mut vm = Vm::new(adapters(), 0);
            vm.eval(p, &nil()).ok().map(|_| vm.cost)
        };
        let guard = |ext: u8, body: &T| -> Option<T> {
            let c = ref_cost(body)? + 140;
            Some(list(&[atom(&[36]), quote(crate::tree::int_atom(c as i128)), quote(if ext == 0 { nil() } else { atom(&[ext]) }), quote(body.clone()), nil()]))
        };
        for op in &ops {
            for args in &argsets {
                let mut call = vec![atom(op)];
                call.extend(args.iter().cloned());
                let call = list(&call);
                let mut progs: Vec<(String, T)> = vec![("bare".into(), call.clone())];
                if let Some(g0) = guard(0, &call) {
                    progs.push(("inside an extension-0 guard".into(), g0.clone()));
                    for outer in [0u8, 1, 2] {
                        if let Some(g) = guard(outer, &g0) {
                            progs.push((format!("inside an extension-0 guard nested in an extension-{outer} guard"), g));
                        }
                    }
                }
                for (ctxname, p) in progs {
                    let canon = format!("opcode {} {ctxname}: prog={}", hx(op), p.hex());
                    guarded(&mut acc, &canon, |acc| {
                        let mut vm = Vm::new(adapters(), 0);
                        let r = vm.eval(&p, &nil());
                        let o = with_loaded(&p, &nil(), Enc::Inline, |l| l.run_flags(ClvmFlags::empty(), 0));
                        acc.inc("calls");
                        acc.inc("guard_context_cases");
                        match (&r, o.ok) {
                            (Ok(t), true) if t_digest(t) == o.digest && vm.cost == o.cost as u128 => acc.inc("matched_cost"),
                            (Err(_), false) => acc.inc("matched_failure"),
                            _ => acc.violation(canon.clone(), format!("implementation {} but the rule (reference interpreter) gives {}", o.brief(), r.as_ref().map(|t| format!("{} cost {}", t.hex(), vm.cost)).unwrap_or_else(|e| format!("failure ({e})")))),
                        }
                    });
                }
            }
        }
        rep.absorb(acc);
    }
    rep.evaluations = rep.acc.get("calls");
    rep.nontrivial = rep.acc.get("matched_cost");
    rep.states = rep.acc.get("cases");
    rep.transitions = rep.acc.get("calls");
    rep.traces = rep.acc.get("cases");
    rep.rule = format!("every unassigned opcode of 1 and 2 bytes (assigned ones classified by an independent table) and every opcode up to {maxlen} bytes over {{00 01 3f 40 7f 80 bf c0 fe ff}}, plus 16 core opcodes with EVERY argument vector of arity 0..={} over shared atoms of sizes {pool_sizes:?} and a pair (with and without an atom terminator), plus the overflow corner (multipliers around k*2^64/base and 2^32/base for bases built from the largest atoms), under both cost models, budgets {{unlimited, base, base-1}} and strict mode, called through ChiaDialect::op (plus 8 unassigned / not-enabled opcodes evaluated by run_program bare and inside extension-0 guards nested in guards of extension 0, 1 and 2, against the reference interpreter); oracle: an independent u128 implementation of the published rule (nil + (multiplier+1)*base, or failure under the six listed conditions). Non-trivial = calls where rule and implementation agree on a successful cost.", 3);
    rep.assumptions.push("large operands are shared atoms referenced several times (a 64 MiB atom is allocated once per worker)".into());
    rep
}
