// C11 — operator results do not depend on the cost model.
use crate::common::*;
use crate::domains::*;
use crate::progspace::*;
use crate::tree::{Enc, T};
use clvmr::chia_dialect::{ClvmFlags, MEMPOOL_MODE};
use serde_json::json;

const CEILING: u64 = 1 << 34;

fn check_case(prog: &T, env: &T, bases: &[ClvmFlags], acc: &mut Acc, space: &str) {
    with_loaded(prog, env, Enc::Inline, |l| {
        for f in bases {
            let old = l.run_flags(*f, CEILING);
            let new = l.run_flags(*f | ClvmFlags::NEW_COST_MODEL, CEILING);
            acc.add("runs", 2);
            acc.inc("pairs");
            let canon = format!("prog={} env={} flags={:#x}", prog.hex(), env.hex(), f.bits());
            if old.panicked || new.panicked {
                acc.violation(canon, format!("[{space}] panic: {} / {}", old.brief(), new.brief()));
                continue;
            }
            if old.ok && new.ok {
                acc.inc("both_succeed");
                if old.cost != new.cost {
                    acc.inc("both_succeed_costs_differ");
                }
                if old.digest != new.digest {
                    let (_, s1) = l.run_show(&clvmr::ChiaDialect::new(*f), CEILING);
                    let (_, s2) = l.run_show(&clvmr::ChiaDialect::new(*f | ClvmFlags::NEW_COST_MODEL), CEILING);
                    acc.violation(canon, format!("[{space}] results differ between cost models: old {s1} new {s2}"));
                    continue;
                }
                // also at the smaller of the two costs as budget
                let b = old.cost.min(new.cost);
                let o2 = l.run_flags(*f, b);
                let n2 = l.run_flags(*f | ClvmFlags::NEW_COST_MODEL, b);
                acc.add("runs", 2);
                if o2.ok && n2.ok && o2.digest != n2.digest {
                    acc.violation(format!("{canon} budget={b}"), format!("[{space}] results differ between cost models under budget {b}"));
                }
                // per-operator non-vacuity
                if let T::P(op, _) = prog {
                    if let T::A(b) = &**op {
                        if b.len() == 1 {
                            acc.outcome(b[0] as u64);
                        }
                    }
                }
            } else if old.ok != new.ok {
                acc.inc("only_one_model_succeeds");
            }
        }
    });
}

pub fn run(ctx: &Ctx) -> Report {
    let mut rep = Report::new("C11", "exploration");
    let enables = ClvmFlags::ENABLE_KECCAK_OPS_OUTSIDE_GUARD | ClvmFlags::ENABLE_SHA256_TREE | ClvmFlags::ENABLE_SECP_OPS;
    let bases: Vec<ClvmFlags> = ctx.pick(
        // every flag whose meaning the new model changes or drops appears alone at least once (DISABLE_OP, LIMITS)
        vec![ClvmFlags::empty(), enables | ClvmFlags::MALACHITE, MEMPOOL_MODE, ClvmFlags::DISABLE_OP, ClvmFlags::LIMITS | ClvmFlags::ENABLE_GC, ClvmFlags::CANONICAL_INTS | ClvmFlags::LIMIT_SOFTFORK],
        vec![ClvmFlags::empty(), ClvmFlags::MALACHITE, enables, MEMPOOL_MODE, MEMPOOL_MODE | enables, ClvmFlags::ENABLE_GC | enables, ClvmFlags::LIMITS, ClvmFlags::DISABLE_OP, ClvmFlags::DISABLE_OP | enables, ClvmFlags::NO_UNKNOWN_OPS, ClvmFlags::CANONICAL_INTS, ClvmFlags::LIMIT_SOFTFORK, ClvmFlags::LIMIT_HEAP, ClvmFlags::RELAXED_BLS, ClvmFlags::ENABLE_GC],
    );
    let ops = { let mut o = all_single_byte_ops(); o.extend(multibyte_ops()); o };
    let spaces: Vec<ProgSpace> = vec![
        p_vectors(ctx.pick(3, 12)),
        p1("P1", ops.clone(), ctx.pick(a6(), a12()), vec![vec![2u8], vec![5], vec![11]], ctx.pick(2, 3)),
        p1b(ops, ctx.pick(2, 3)),
        p2(classic_ops(), ctx.pick(vec![vec![1], vec![0x80]], vec![vec![], vec![1], vec![0x80]])),
        p4(ctx.pick(16, 80), false),
        p5_full(),
        p_guard_then_op(),
        p_limits(!ctx.quick()),
    ];
    let seed = ctx.seed;
    let mut notes = vec![];
    for sp in &spaces {
        let t_space = std::time::Instant::now();
        let acc = par_for(ctx, sp.total, 32, |i| { let (p, e) = sp.at(i); format!("prog={} env={}", p.hex(), e.hex()) }, |i, acc| {
            let (p, e) = sp.at(i);
            check_case(&p, &e, &bases, acc, &sp.name);
            acc.inc("programs");
            acc.maybe_sample(sample_key(seed, i ^ fnv(sp.name.as_bytes())), || json!({"space": sp.name, "prog": p.hex()}));
        });
        notes.push(json!({"space": sp.name, "wall_s": t_space.elapsed().as_secs_f64(), "programs": sp.total}));
        rep.absorb(acc);
    }
    rep.note("spaces", json!(notes));
    rep.note("distinct_single_byte_operators_with_both_models_succeeding", json!(rep.acc.outcomes.len()));
    rep.evaluations = rep.acc.get("runs");
    rep.nontrivial = rep.acc.get("both_succeed");
    rep.states = rep.acc.get("programs");
    rep.transitions = rep.acc.get("runs");
    rep.traces = rep.acc.get("pairs");
    rep.rule = format!("every program of PV, P1, P1b (big operands: the split-accumulator paths of + - and the logic operators), P2, P4, P5, LIMITS x {} base flag sets run under F and F|NEW_COST_MODEL (budget ceiling 2^34 and the smaller of the two costs); oracle: when both succeed the result trees are identical. Non-trivial = pairs where both models succeed (results compared); the number of distinct top-level operators among them is reported.", bases.len());
    rep
}
