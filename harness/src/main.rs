#![allow(dead_code)]
mod allocprobe;
mod common;
mod domains;
mod opspace;
mod progspace;
mod props;
mod refserde;
mod refcost;
mod refsha;
mod refvm;
mod tree;
mod vectors;

use common::*;

#[global_allocator]
static GLOBAL: allocprobe::Counting = allocprobe::Counting;
use std::time::Instant;

fn main() {
    let args: Vec<String> = std::env::args().collect();
    if args.len() >= 5 && args[1] == "C05EMIT" {
        common::silence_panics();
        let quick = args[2] != "thorough";
        let h = std::thread::Builder::new().stack_size(1 << 30).spawn(move || props::c05::emit(quick, args[3].parse().unwrap_or(8), &args[4])).unwrap();
        h.join().unwrap();
        return;
    }
    if args.len() >= 4 && args[1] == "C05SHOW" {
        common::silence_panics();
        props::c05::show(args[2] != "thorough", args[3].parse().unwrap_or(0));
        return;
    }
    if args.len() >= 3 && args[1] == "C20HUGE" {
        std::process::exit(props::c20::huge_child(args[2].parse().unwrap_or(0)));
    }
    if args.len() >= 4 && args[1] == "C25DEEP" {
        std::process::exit(props::c25::deep_child(&args[2], args[3].parse().unwrap_or(1000)));
    }
    // deep trees (recursive drop / reference interpreter recursion) need a large stack
    let h = std::thread::Builder::new().stack_size(4 << 30).spawn(real_main).expect("spawn main");
    h.join().expect("main thread panicked");
}

fn real_main() {
    let args: Vec<String> = std::env::args().collect();
    if args.len() < 2 {
        eprintln!("usage: vh <property> [--tier quick|thorough] [--seed N] [--out FILE] [--replay FILE] [--wall-cap S]");
        std::process::exit(2);
    }
    let prop = args[1].to_uppercase();
    let mut tier = match std::env::var("VERIF_TIER").as_deref() {
        Ok("thorough") => Tier::Thorough,
        _ => Tier::Quick,
    };
    let mut seed: u64 = std::env::var("VERIF_SEED").ok().and_then(|s| s.parse().ok()).unwrap_or(0);
    let mut out: Option<String> = None;
    let mut replay: Option<String> = None;
    let mut wall_cap: Option<f64> = None;
    let mut i = 2;
    while i < args.len() {
        match args[i].as_str() {
            "--tier" => {
                tier = if args[i + 1] == "thorough" { Tier::Thorough } else { Tier::Quick };
                i += 1;
            }
            "--seed" => {
                seed = args[i + 1].parse().unwrap_or(0);
                i += 1;
            }
            "--out" => {
                out = Some(args[i + 1].clone());
                i += 1;
            }
            "--replay" => {
                replay = Some(args[i + 1].clone());
                i += 1;
            }
            "--wall-cap" => {
                wall_cap = args[i + 1].parse().ok();
                i += 1;
            }
            _ => {}
        }
        i += 1;
    }
    let threads = std::env::var("VERIF_THREADS")
        .ok()
        .and_then(|s| s.parse().ok())
        .unwrap_or_else(|| std::thread::available_parallelism().map(|n| n.get()).unwrap_or(8));
    let ctx = Ctx {
        tier,
        seed,
        threads,
        start: Instant::now(),
        wall_cap_s: wall_cap.unwrap_or(if tier == Tier::Quick { 240.0 } else { 3600.0 }),
        replay,
    };
    silence_panics();
    if let Err(e) = refsha::self_test() {
        eprintln!("MACHINERY: reference hash self-test failed: {e}");
        std::process::exit(2);
    }
    // a panic in a sequential section of a property module (outside the per-case capture of par_for) is a
    // panic of the code under test, or a broken expectation about it (an unwrap of a result that must be Ok on
    // the unchanged tree): it is reported as a violation with the place it was raised, not as an engine crash
    let rep = match std::panic::catch_unwind(std::panic::AssertUnwindSafe(|| props::dispatch(&prop, &ctx))) {
        Ok(Some(r)) => r,
        Ok(None) => {
            eprintln!("unknown property {prop}");
            std::process::exit(2);
        }
        Err(e) => {
            let mut r = Report::new(&prop, "exploration");
            let at = last_panic_location();
            r.acc.violation(format!("PANIC in a sequential section, raised at {at}"), format!("{} — the enumeration was aborted at this point; everything explored before it is lost", panic_msg(e)));
            r.rule = "aborted by a panic".into();
            r
        }
    };
    let j = rep.to_json(&ctx);
    let s = serde_json::to_string_pretty(&j).unwrap();
    match out {
        Some(p) => std::fs::write(p, s).unwrap(),
        None => println!("{s}"),
    }
}
