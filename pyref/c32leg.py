"""C32 — cryptographic operators against from-scratch python implementations (pyref).
BLS12-381 (bls.py, h2c.py), secp256k1 / secp256r1 ECDSA, SHA-256 (hashlib), Keccak-256 (own permutation,
cross-checked against hashlib.sha3_256), coinid."""
import glob
import hashlib
import itertools
import multiprocessing as mp
import os
import re
import sys
import traceback

FLAGS = 0x100 | 0x400 | 0x800  # keccak outside guard, sha256tree, secp opcodes 64/65
RELAXED = 0x8


# ---------------------------------------------------------------------------------------------
# serialization helpers

def ser_atom(b):
    n = len(b)
    if n == 0:
        return b"\x80"
    if n == 1 and b[0] < 0x80:
        return b
    if n < 0x40:
        return bytes([0x80 | n]) + b
    if n < 0x2000:
        return bytes([0xC0 | (n >> 8), n & 0xFF]) + b
    return bytes([0xE0 | (n >> 16), (n >> 8) & 0xFF, n & 0xFF]) + b


PAIR = "PAIR"  # a string survives pickling to the worker processes


def prog(op, args):
    """(op (q . a1) ... (q . an)); an argument PAIR stands for the pair (1 . 2)"""
    out = b"\xff" + ser_atom(op)
    for a in args:
        out += b"\xff\xff\x01" + (b"\xff\x01\x02" if isinstance(a, str) else ser_atom(a))
    return out + b"\x80"


def run_op(c, p, flags=FLAGS):
    try:
        cost, node = c.run_serialized_chia_program(p, b"\x80", 0, flags)
        if node.pair is not None:
            return ("ok", "pair")
        return ("ok", bytes(node.atom))
    except ValueError as ex:
        a = ex.args
        return ("err", str(a[0]) if a else "")


def int_bytes(v):
    if v == 0:
        return b""
    n = (v.bit_length() + 8) // 8
    b = v.to_bytes(n, "big", signed=True)
    while len(b) > 1 and ((b[0] == 0 and b[1] < 0x80) or (b[0] == 0xFF and b[1] >= 0x80)):
        b = b[1:]
    return b


def int_from(b):
    return int.from_bytes(b, "big", signed=True) if b else 0


# ---------------------------------------------------------------------------------------------
# keccak-256 (own permutation)

def keccak_f(st):
    rc = []
    r = 1
    for _ in range(24):
        v = 0
        for j in range(7):
            bit = r & 1
            hi = r & 0x80
            r = (r << 1) & 0xFF
            if hi:
                r ^= 0x71
            if bit:
                v ^= 1 << ((1 << j) - 1)
        rc.append(v)
    rot = [[0] * 5 for _ in range(5)]
    x, y = 1, 0
    for t in range(24):
        rot[x][y] = ((t + 1) * (t + 2) // 2) % 64
        x, y = y, (2 * x + 3 * y) % 5
    M = (1 << 64) - 1
    rol = lambda v, n: ((v << n) | (v >> (64 - n))) & M if n else v
    for rnd in range(24):
        C = [st[x][0] ^ st[x][1] ^ st[x][2] ^ st[x][3] ^ st[x][4] for x in range(5)]
        for x in range(5):
            d = C[(x + 4) % 5] ^ rol(C[(x + 1) % 5], 1)
            for y in range(5):
                st[x][y] ^= d
        B = [[0] * 5 for _ in range(5)]
        for x in range(5):
            for y in range(5):
                B[y][(2 * x + 3 * y) % 5] = rol(st[x][y], rot[x][y])
        for x in range(5):
            for y in range(5):
                st[x][y] = B[x][y] ^ ((~B[(x + 1) % 5][y]) & M & B[(x + 2) % 5][y])
        st[0][0] ^= rc[rnd]
    return st


def sponge256(data, pad):
    rate = 136
    m = bytearray(data) + bytes([pad])
    while len(m) % rate:
        m.append(0)
    m[-1] |= 0x80
    st = [[0] * 5 for _ in range(5)]
    for off in range(0, len(m), rate):
        blk = m[off:off + rate]
        for i in range(rate // 8):
            st[i % 5][i // 5] ^= int.from_bytes(blk[i * 8:i * 8 + 8], "little")
        st = keccak_f(st)
    return b"".join(st[i % 5][i // 5].to_bytes(8, "little") for i in range(4))


def keccak256(data):
    return sponge256(data, 0x01)


# ---------------------------------------------------------------------------------------------
# ECDSA on short Weierstrass curves

class Curve:
    def __init__(self, p, a, b, gx, gy, n):
        self.p, self.a, self.b, self.g, self.n = p, a, b, (gx, gy), n

    def on_curve(self, P):
        if P is None:
            return True
        x, y = P
        return (y * y - (x * x * x + self.a * x + self.b)) % self.p == 0

    def add(self, P, Q):
        if P is None:
            return Q
        if Q is None:
            return P
        p = self.p
        if P[0] == Q[0]:
            if (P[1] + Q[1]) % p == 0:
                return None
            l = (3 * P[0] * P[0] + self.a) * pow(2 * P[1], -1, p) % p
        else:
            l = (Q[1] - P[1]) * pow(Q[0] - P[0], -1, p) % p
        x = (l * l - P[0] - Q[0]) % p
        return (x, (l * (P[0] - x) - P[1]) % p)

    def mul(self, P, k):
        R = None
        while k:
            if k & 1:
                R = self.add(R, P)
            P = self.add(P, P)
            k >>= 1
        return R

    def decode_point(self, b):
        """SEC1: 02/03 compressed, 04 uncompressed; anything else invalid. Returns point or None"""
        p = self.p
        if len(b) == 33 and b[0] in (2, 3):
            x = int.from_bytes(b[1:], "big")
            if x >= p:
                return None
            rhs = (x * x * x + self.a * x + self.b) % p
            y = pow(rhs, (p + 1) // 4, p)
            if y * y % p != rhs:
                return None
            if (y & 1) != (b[0] & 1):
                y = p - y
            return (x, y)
        if len(b) == 65 and b[0] == 4:
            x = int.from_bytes(b[1:33], "big")
            y = int.from_bytes(b[33:], "big")
            if x >= p or y >= p or not self.on_curve((x, y)):
                return None
            return (x, y)
        return None

    def encode(self, P, compressed=True):
        if compressed:
            return bytes([2 + (P[1] & 1)]) + P[0].to_bytes(32, "big")
        return b"\x04" + P[0].to_bytes(32, "big") + P[1].to_bytes(32, "big")

    def sign(self, d, z, k):
        R = self.mul(self.g, k)
        r = R[0] % self.n
        s = pow(k, -1, self.n) * (z + r * d) % self.n
        return r, s

    def verify(self, Q, z, r, s):
        n = self.n
        if not (1 <= r < n and 1 <= s < n):
            return False
        w = pow(s, -1, n)
        P = self.add(self.mul(self.g, z * w % n), self.mul(Q, r * w % n))
        return P is not None and P[0] % n == r


K1 = Curve(2**256 - 2**32 - 977, 0, 7,
           0x79BE667EF9DCBBAC55A06295CE870B07029BFCDB2DCE28D959F2815B16F81798, 0x483ADA7726A3C4655DA4FBFC0E1108A8FD17B448A68554199C47D08FFB10D4B8,
           0xFFFFFFFFFFFFFFFFFFFFFFFFFFFFFFFEBAAEDCE6AF48A03BBFD25E8CD0364141)
R1 = Curve(2**256 - 2**224 + 2**192 + 2**96 - 1, -3, 0x5AC635D8AA3A93E7B3EBBD55769886BC651D06B0CC53B0F63BCE3C3E27D2604B,
           0x6B17D1F2E12C4247F8BCE6E563A440F277037D812DEB33A0F4A13945D898C296, 0x4FE342E2FE1A7F9B8EE7EB4A7C0F9E162BCE33576B315ECECBB6406837BF51F5,
           0xFFFFFFFF00000000FFFFFFFFFFFFFFFFBCE6FAADA7179E84F3B9CAC2FC632551)


def self_check(res):
    ok = True
    for name, c in (("secp256k1", K1), ("secp256r1", R1)):
        if not c.on_curve(c.g) or c.mul(c.g, c.n) is not None:
            res.machinery_errors.append(f"{name} parameters fail self-validation")
            ok = False
    for m in (b"", b"abc", b"x" * 135, b"y" * 136, b"z" * 300):
        if sponge256(m, 0x06) != hashlib.sha3_256(m).digest():
            res.machinery_errors.append("keccak permutation disagrees with hashlib.sha3_256")
            ok = False
            break
    return ok


# ---------------------------------------------------------------------------------------------
# workers

def load_bls():
    import bls
    import h2c
    return bls, h2c


def g1_parse(bls, b):
    """returns ('ok', point-or-None-for-infinity) or ('bad', None)"""
    if len(b) != 48:
        return ("bad", None)
    p = bls.decompress1(b)
    if isinstance(p, str):
        return ("bad", None)
    return ("ok", p)


def g2_parse(bls, b):
    if len(b) != 96:
        return ("bad", None)
    p = bls.decompress2(b)
    if isinstance(p, str):
        return ("bad", None)
    return ("ok", p)


def worker(job):
    kind, items = job
    import clvm_rs.clvm_rs as c
    out = {"evaluations": 0, "nontrivial": 0, "violations": [], "violation_count": 0, "counts": {}, "samples": [], "machinery_errors": []}

    def viol(canon, detail):
        out["violation_count"] += 1
        if len(out["violations"]) < 100:
            out["violations"].append({"canon": canon, "detail": detail[:800]})

    def inc(k):
        out["counts"][k] = out["counts"].get(k, 0) + 1

    def judge(canon, got, exp):
        """exp: ('ok', bytes) or ('err',)"""
        out["evaluations"] += 1
        if exp[0] == "ok":
            if got[0] != "ok" or got[1] != exp[1]:
                viol(canon, f"operator returned {got[0]} {got[1].hex() if isinstance(got[1], bytes) else got[1]}, independent implementation gives {exp[1].hex()}")
            else:
                out["nontrivial"] += 1
                inc("agree_ok")
        else:
            if got[0] != "err":
                viol(canon, f"operator accepted ({got[1].hex() if isinstance(got[1], bytes) else got[1]}), independent implementation rejects")
            else:
                out["nontrivial"] += 1
                inc("agree_reject")

    try:
        if kind == "hash":
            for opname, args in items:
                if opname == "sha256":
                    exp = ("err",) if any(isinstance(a, str) for a in args) else ("ok", hashlib.sha256(b"".join(args)).digest())
                    got = run_op(c, prog(b"\x0b", args))
                elif opname == "keccak256":
                    exp = ("err",) if any(isinstance(a, str) for a in args) else ("ok", keccak256(b"".join(args)))
                    got = run_op(c, prog(b"\x3e", args))
                else:  # coinid
                    def amount_ok(a):
                        if isinstance(a, str):
                            return False
                        if not a:
                            return True
                        if a[0] & 0x80:
                            return False
                        if a == b"\x00" or (len(a) > 1 and a[0] == 0 and a[1] < 0x80):
                            return False
                        return len(a) <= 8 or (len(a) == 9 and a[0] == 0)
                    good = len(args) == 3 and all(not isinstance(a, str) for a in args[:2]) and len(args[0]) == 32 and len(args[1]) == 32 and amount_ok(args[2])
                    exp = ("ok", hashlib.sha256(args[0] + args[1] + args[2]).digest()) if good else ("err",)
                    got = run_op(c, prog(b"\x30", args))
                judge(f"{opname} args={[('pair' if isinstance(a, str) else a.hex()[:80]) for a in args]}", got, exp)
        elif kind == "secp":
            for curve_name, pk, msg, sig in items:
                cv = K1 if curve_name == "k1" else R1
                def model():
                    if isinstance(pk, str) or isinstance(msg, str) or isinstance(sig, str):
                        return ("err",)
                    Q = cv.decode_point(pk)
                    if Q is None or len(msg) != 32 or len(sig) != 64:
                        return ("err",)
                    r, s = int.from_bytes(sig[:32], "big"), int.from_bytes(sig[32:], "big")
                    return ("ok", b"") if cv.verify(Q, int.from_bytes(msg, "big"), r, s) else ("err",)
                exp = model()
                for op in ((b"\x40", b"\x13\xd6\x1f\x00") if curve_name == "k1" else (b"\x41", b"\x1c\x3a\x8f\x00")):
                    got = run_op(c, prog(op, [pk, msg, sig]))
                    judge(f"secp256{curve_name} opcode={op.hex()} pk={'pair' if isinstance(pk, str) else pk.hex()} msg={'pair' if isinstance(msg, str) else msg.hex()} sig={'pair' if isinstance(sig, str) else sig.hex()}", got, exp)
        elif kind == "g1":
            bls, h2c = load_bls()
            for opname, args, flags in items:
                canon = f"{opname} args={[('pair' if isinstance(a, str) else a.hex()) for a in args]} flags={flags:#x}"
                if opname in ("point_add", "g1_subtract"):
                    pts = [g1_parse(bls, a) if not isinstance(a, str) else ("bad", None) for a in args]
                    if any(p[0] == "bad" for p in pts):
                        exp = ("err",)
                    else:
                        acc = None
                        for i, p in enumerate(pts):
                            q = p[1]
                            if opname == "g1_subtract" and i > 0:
                                q = bls.ec_neg(q)
                            acc = bls.ec_add(acc, q)
                        exp = ("ok", bls.compress1(acc))
                    got = run_op(c, prog(b"\x1d" if opname == "point_add" else b"\x31", args), flags)
                elif opname == "g1_negate":
                    if len(args) != 1 or isinstance(args[0], str) or len(args[0]) != 48:
                        exp = ("err",)
                    elif flags & RELAXED:
                        b = args[0]
                        exp = ("ok", b if (b[0] & 0xE0) == 0xC0 else bytes([b[0] ^ 0x20]) + b[1:])
                    else:
                        p = g1_parse(bls, args[0])
                        exp = ("err",) if p[0] == "bad" else ("ok", bls.compress1(bls.ec_neg(p[1])))
                    got = run_op(c, prog(b"\x33", args), flags)
                elif opname == "g1_multiply":
                    if len(args) != 2 or PAIR in args:
                        exp = ("err",)
                    else:
                        p = g1_parse(bls, args[0])
                        exp = ("err",) if p[0] == "bad" else ("ok", bls.compress1(bls.ec_mul(p[1], int_from(args[1]) % bls.R)))
                    got = run_op(c, prog(b"\x32", args), flags)
                elif opname == "pubkey_for_exp":
                    if len(args) != 1 or PAIR in args:
                        exp = ("err",)
                    else:
                        exp = ("ok", bls.compress1(bls.ec_mul(bls.g1, int_from(args[0]) % bls.R)))
                    got = run_op(c, prog(b"\x1e", args), flags)
                else:  # g1_map
                    if not (1 <= len(args) <= 2) or PAIR in args:
                        exp = ("err",)
                    else:
                        dst = args[1] if len(args) == 2 else b"BLS_SIG_BLS12381G1_XMD:SHA-256_SSWU_RO_AUG_"
                        exp = ("ok", bls.compress1(h2c.hash_to_g1(args[0], dst)))
                    got = run_op(c, prog(b"\x38", args), flags)
                judge(canon, got, exp)
        elif kind == "g2":
            bls, h2c = load_bls()
            for opname, args, flags in items:
                canon = f"{opname} args={[('pair' if isinstance(a, str) else a.hex()) for a in args]} flags={flags:#x}"
                if opname in ("g2_add", "g2_subtract"):
                    pts = [g2_parse(bls, a) if not isinstance(a, str) else ("bad", None) for a in args]
                    if any(p[0] == "bad" for p in pts):
                        exp = ("err",)
                    else:
                        acc = None
                        for i, p in enumerate(pts):
                            q = p[1]
                            if opname == "g2_subtract" and i > 0:
                                q = bls.ec_neg(q)
                            acc = bls.ec_add(acc, q)
                        exp = ("ok", bls.compress2(acc))
                    got = run_op(c, prog(b"\x34" if opname == "g2_add" else b"\x35", args), flags)
                elif opname == "g2_negate":
                    if len(args) != 1 or isinstance(args[0], str) or len(args[0]) != 96:
                        exp = ("err",)
                    elif flags & RELAXED:
                        b = args[0]
                        exp = ("ok", b if (b[0] & 0xE0) == 0xC0 else bytes([b[0] ^ 0x20]) + b[1:])
                    else:
                        p = g2_parse(bls, args[0])
                        exp = ("err",) if p[0] == "bad" else ("ok", bls.compress2(bls.ec_neg(p[1])))
                    got = run_op(c, prog(b"\x37", args), flags)
                elif opname == "g2_multiply":
                    if len(args) != 2 or PAIR in args:
                        exp = ("err",)
                    else:
                        p = g2_parse(bls, args[0])
                        exp = ("err",) if p[0] == "bad" else ("ok", bls.compress2(bls.ec_mul(p[1], int_from(args[1]) % bls.R)))
                    got = run_op(c, prog(b"\x36", args), flags)
                else:  # g2_map
                    if not (1 <= len(args) <= 2) or PAIR in args:
                        exp = ("err",)
                    else:
                        dst = args[1] if len(args) == 2 else b"BLS_SIG_BLS12381G2_XMD:SHA-256_SSWU_RO_AUG_"
                        exp = ("ok", bls.compress2(h2c.hash_to_g2(args[0], dst)))
                    got = run_op(c, prog(b"\x39", args), flags)
                judge(canon, got, exp)
        elif kind == "pairing":
            bls, h2c = load_bls()
            for opname, args in items:
                canon = f"{opname} args={[('pair' if isinstance(a, str) else a.hex()) for a in args]}"
                if opname == "bls_pairing_identity":
                    if len(args) % 2 or PAIR in args:
                        exp = ("err",)
                    else:
                        pts = []
                        bad = False
                        for i in range(0, len(args), 2):
                            p1, p2 = g1_parse(bls, args[i]), g2_parse(bls, args[i + 1])
                            if p1[0] == "bad" or p2[0] == "bad":
                                bad = True
                                break
                            pts.append((p1[1], p2[1]))
                        if bad:
                            exp = ("err",)
                        else:
                            exp = ("ok", b"") if bls.pairing_product_is_one(pts) else ("err",)
                    got = run_op(c, prog(b"\x3a", args))
                else:  # bls_verify
                    if len(args) < 1 or len(args) % 2 == 0 or PAIR in args:
                        exp = ("err",)
                    else:
                        sig = g2_parse(bls, args[0])
                        if sig[0] == "bad":
                            exp = ("err",)
                        else:
                            pairs = []
                            bad = False
                            for i in range(1, len(args), 2):
                                pk = g1_parse(bls, args[i])
                                if pk[0] == "bad" or pk[1] is None:
                                    bad = True
                                    break
                                hm = h2c.hash_to_g2(bls.compress1(pk[1]) + args[i + 1], b"BLS_SIG_BLS12381G2_XMD:SHA-256_SSWU_RO_AUG_")
                                pairs.append((pk[1], hm))
                            if bad:
                                exp = ("err",)
                            elif not pairs:
                                exp = ("ok", b"") if sig[1] is None else ("err",)
                            else:
                                # e(-G1, sig) * prod e(pk, H(m)) == 1
                                lst = list(pairs)
                                if sig[1] is not None:
                                    lst.append((bls.ec_neg(bls.g1), sig[1]))
                                exp = ("ok", b"") if bls.pairing_product_is_one(lst) else ("err",)
                    got = run_op(c, prog(b"\x3b", args))
                judge(canon, got, exp)
    except Exception:
        out["machinery_errors"].append(traceback.format_exc()[-1200:])
    if items:
        it = items[len(items) // 2]
        out["samples"].append({"kind": kind, "case": str(it)[:300]})
    return out


def chunk(lst, n):
    return [lst[i:i + n] for i in range(0, len(lst), n)]


def run(res, quick, seed, target):
    if not self_check(res):
        return
    try:
        import bls
        import h2c
    except Exception:
        res.machinery_errors.append("pyref BLS modules failed to load: " + traceback.format_exc()[-800:])
        return
    # start-up conformance of pyref's hash-to-curve against the blspy vectors of the repository
    okv = 0
    for fn in ("/repo/op-tests/test-blspy-hash.txt",):
        for line in open(fn):
            m = re.match(r"(g1_map|g2_map) (0x[0-9a-f]*|\"[^\"]*\")(?: (0x[0-9a-f]*|\"[^\"]*\"))? => 0x([0-9a-f]+)", line)
            if not m:
                continue
            tob = lambda s: bytes.fromhex(s[2:]) if s.startswith("0x") else s.strip('"').encode()
            msg = tob(m.group(2))
            dst = tob(m.group(3)) if m.group(3) else None
            if m.group(1) == "g2_map":
                got = bls.compress2(h2c.hash_to_g2(msg, dst or b"BLS_SIG_BLS12381G2_XMD:SHA-256_SSWU_RO_AUG_")).hex()
            else:
                got = bls.compress1(h2c.hash_to_g1(msg, dst or b"BLS_SIG_BLS12381G1_XMD:SHA-256_SSWU_RO_AUG_")).hex()
            if got != m.group(4):
                res.machinery_errors.append(f"pyref hash-to-curve disagrees with blspy vector: {line[:80]}")
                return
            okv += 1
            if okv >= 12:
                break
    res.notes["pyref_h2c_vectors_reproduced"] = okv
    if bls.compress1(bls.g1).hex() != "97f1d3a73197d7942695638c4fa9ac0fc3688c4f9774b905a14e3a3f171bac586c55e83ff97a1aeffb3af00adb22c6bb" or bls.ec_mul(bls.g1, bls.R) is not None or bls.ec_mul(bls.g2, bls.R) is not None:
        res.machinery_errors.append("pyref BLS constants fail self-validation")
        return

    jobs = []
    # ----- hashing
    a24 = [b"", b"\x01", b"\x80", b"\x00", b"\x00\x01", b"\xff", b"\x7f", b"\xff\xff", b"\x03\xff\xff\xff", b"\x04\x00\x00\x00", b"\x7f" * 8, b"\x00" + b"\xff" * 8, b"\x01" + b"\x00" * 8,
           bytes(range(32)), bytes(range(33))]
    blocks = [b"k" * n for n in (55, 56, 63, 64, 65, 135, 136, 137)]
    hash_items = []
    alpha = a24 + blocks + [PAIR]
    small = a24[:8] + [PAIR]
    for op in ("sha256", "keccak256"):
        for n in range(0, 3):
            for args in itertools.product(alpha if n <= 1 else a24[:10] + blocks[:4] + [PAIR], repeat=n):
                hash_items.append((op, list(args)))
        for args in itertools.product(small, repeat=3):
            hash_items.append((op, list(args)))
        if not quick:
            for args in itertools.product(a24[:6], repeat=4):
                hash_items.append((op, list(args)))
    h32 = [bytes(range(32)), b"\x00" * 32, b"\xff" * 32]
    amounts = a24 + [b"\x00\x80", b"\x00\xff\xff\xff\xff\xff\xff\xff\xff", b"\x01\x00\x00\x00\x00\x00\x00\x00\x00", b"\x7f" * 9, PAIR]
    for p in h32 + [bytes(31), bytes(33), PAIR]:
        for q in h32[:2] + [bytes(31), PAIR]:
            for am in amounts:
                hash_items.append(("coinid", [p, q, am]))
    hash_items.append(("coinid", [h32[0], h32[1]]))
    hash_items.append(("coinid", [h32[0], h32[1], b"\x01", b"\x01"]))
    jobs += [("hash", ch) for ch in chunk(hash_items, 400)]
    # ----- secp
    secp_items = []
    for name, cv in (("k1", K1), ("r1", R1)):
        d = 0x1234567890ABCDEF1234567890ABCDEF1234567890ABCDEF1234567890ABCDEF % cv.n
        Q = cv.mul(cv.g, d)
        z = int.from_bytes(hashlib.sha256(b"message").digest(), "big")
        msg = z.to_bytes(32, "big")
        r, s = cv.sign(d, z, 0x0F0E0D0C0B0A09080706050403020100FFEEDDCCBBAA99887766554433221101 % cv.n)
        sig = r.to_bytes(32, "big") + s.to_bytes(32, "big")
        high_s = r.to_bytes(32, "big") + (cv.n - s).to_bytes(32, "big")
        keys = [cv.encode(Q), cv.encode(Q, False), bytes([6 + (Q[1] & 1)]) + cv.encode(Q, False)[1:], b"\x00", bytes([cv.encode(Q)[0] ^ 1]) + cv.encode(Q)[1:],
                b"\x02" + (cv.p + 1).to_bytes(32, "big"), b"\x02" + (5).to_bytes(32, "big"), cv.encode(Q)[:32], cv.encode(Q) + b"\x00", b"\x04" + Q[0].to_bytes(32, "big") + ((Q[1] + 1) % cv.p).to_bytes(32, "big"),
                b"", cv.encode(cv.g), PAIR]
        sigs = [sig, high_s, bytes(32) + s.to_bytes(32, "big"), r.to_bytes(32, "big") + bytes(32), cv.n.to_bytes(32, "big") + s.to_bytes(32, "big"), r.to_bytes(32, "big") + cv.n.to_bytes(32, "big"),
                (cv.n + 1).to_bytes(32, "big") + s.to_bytes(32, "big"), sig[:63], sig + b"\x00", b"\x30\x44" + sig[:62], bytes(64), b"\xff" * 64,
                ((r + 1) % cv.n).to_bytes(32, "big") + s.to_bytes(32, "big"), PAIR]
        msgs = [msg, bytes(32), msg[:31], msg + b"\x00", b"", (z ^ 1).to_bytes(32, "big"), PAIR]
        for k in keys:
            for m in msgs:
                for sg in sigs:
                    secp_items.append((name, k, m, sg))
        # digests with leading zero bytes: a valid signature for 00..00 || tail must verify for the 32-byte digest
        # and must be rejected when the leading zero bytes are dropped (a shorter digest is not the same digest)
        for zeros in (1, 2, 8, 16):
            z0 = z >> (8 * zeros)
            m0 = z0.to_bytes(32, "big")
            r0, s0 = cv.sign(d, z0, 0x0F0E0D0C0B0A09080706050403020100FFEEDDCCBBAA99887766554433221101 % cv.n)
            if s0 > cv.n // 2:
                s0 = cv.n - s0  # low-s form, accepted by both operators
            sig0 = r0.to_bytes(32, "big") + s0.to_bytes(32, "big")
            for m in (m0, m0[zeros:], m0[1:], b"\x00" + m0, m0[zeros:] + bytes(zeros)):
                secp_items.append((name, cv.encode(Q), m, sig0))
    jobs += [("secp", ch) for ch in chunk(secp_items, 150)]
    # ----- BLS group law
    G = bls.compress1(bls.g1)
    G_2 = bls.compress1(bls.ec_mul(bls.g1, 2))
    Gn = bls.compress1(bls.ec_neg(bls.g1))
    Gr1 = bls.compress1(bls.ec_mul(bls.g1, bls.R - 1))
    INF1 = b"\xc0" + bytes(47)
    # a point on the curve outside the subgroup: find x with y^2 = x^3+4 solvable and r*P != inf
    x = 1
    off1 = None
    while off1 is None:
        x += 1
        rhs = (x * x * x + 4) % bls.P
        y = pow(rhs, (bls.P + 1) // 4, bls.P)
        if y * y % bls.P == rhs:
            pt = (bls.Fq(x), bls.Fq(y))
            if bls.ec_mul(pt, bls.R) is not None:
                off1 = bls.compress1(pt)
    g1_alpha = [INF1, G, G_2, Gn, Gr1, off1, b"\x9a" + (bls.P + 1).to_bytes(48, "big")[1:], bytes([G[0] ^ 0x20]) + G[1:], bytes([G[0] & 0x7F]) + G[1:], b"\xc0" + bytes(46) + b"\x01",
                b"\xe0" + bytes(47), G[:47], G + b"\x00", b"", PAIR]
    H = bls.compress2(bls.g2)
    H2 = bls.compress2(bls.ec_mul(bls.g2, 2))
    Hn = bls.compress2(bls.ec_neg(bls.g2))
    INF2 = b"\xc0" + bytes(95)
    g2_alpha = [INF2, H, H2, Hn, bytes([H[0] ^ 0x20]) + H[1:], bytes([H[0] & 0x7F]) + H[1:], b"\xc0" + bytes(94) + b"\x01", H[:95], H + b"\x00", bytes(96), b"\xff" * 96, PAIR]
    scalars = [b"", b"\x01", b"\xff", b"\x02", int_bytes(bls.R - 1), int_bytes(bls.R), int_bytes(bls.R + 1), int_bytes(1 << 255), b"\x00\x01", b"\xff\xff", b"\x05" * 300, PAIR]
    g1_items = []
    for flags in (FLAGS, FLAGS | RELAXED):
        for n in range(0, 3 if quick else 4):
            for args in itertools.product(g1_alpha if n <= 2 else g1_alpha[:6], repeat=n):
                if flags == FLAGS:
                    g1_items.append(("point_add", list(args), flags))
                    g1_items.append(("g1_subtract", list(args), flags))
        for a in g1_alpha:
            g1_items.append(("g1_negate", [a], flags))
        g1_items.append(("g1_negate", [], flags))
        g1_items.append(("g1_negate", [G, G], flags))
    for p in g1_alpha:
        for sc in scalars:
            g1_items.append(("g1_multiply", [p, sc], FLAGS))
    g1_items.append(("g1_multiply", [G], FLAGS))
    g1_items.append(("g1_multiply", [G, b"\x02", b"\x03"], FLAGS))
    for sc in scalars:
        g1_items.append(("pubkey_for_exp", [sc], FLAGS))
    g1_items.append(("pubkey_for_exp", [], FLAGS))
    msgs = [b"", b"a", bytes(range(32)), b"m" * 200]
    dsts = [None, b"", b"QUUX-V01-CS02-with-BLS12381G1_XMD:SHA-256_SSWU_RO_", b"d" * 300]
    for m in msgs + [PAIR]:
        for d in dsts + [PAIR]:
            g1_items.append(("g1_map", [m] if d is None else [m, d], FLAGS))
    g1_items.append(("g1_map", [], FLAGS))
    jobs += [("g1", ch) for ch in chunk(g1_items, 60)]
    g2_items = []
    for flags in (FLAGS, FLAGS | RELAXED):
        for n in range(0, 3):
            for args in itertools.product(g2_alpha if n <= 1 else g2_alpha[:8], repeat=n):
                if flags == FLAGS:
                    g2_items.append(("g2_add", list(args), flags))
                    g2_items.append(("g2_subtract", list(args), flags))
        for a in g2_alpha:
            g2_items.append(("g2_negate", [a], flags))
    for p in g2_alpha[:8] + [PAIR]:
        for sc in scalars[:8] + [PAIR]:
            g2_items.append(("g2_multiply", [p, sc], FLAGS))
    for m in msgs[:3] + [PAIR]:
        for d in dsts[:3]:
            g2_items.append(("g2_map", [m] if d is None else [m, d], FLAGS))
    jobs += [("g2", ch) for ch in chunk(g2_items, 25)]
    # ----- pairing / verify
    pair_items = []
    pair_items.append(("bls_pairing_identity", []))
    pair_items.append(("bls_pairing_identity", [G, H, Gn, H]))          # e(G,H) e(-G,H) = 1
    pair_items.append(("bls_pairing_identity", [G, H, G, H]))           # != 1
    pair_items.append(("bls_pairing_identity", [G_2, H, Gn, H2]))       # e(2G,H) e(-G,2H) = 1
    pair_items.append(("bls_pairing_identity", [INF1, H]))
    pair_items.append(("bls_pairing_identity", [G, INF2]))
    pair_items.append(("bls_pairing_identity", [G, H]))
    pair_items.append(("bls_pairing_identity", [G]))
    pair_items.append(("bls_pairing_identity", [off1, H]))
    pair_items.append(("bls_pairing_identity", [G, g2_alpha[4], Gn, H]))
    pair_items.append(("bls_pairing_identity", [H, G]))
    pair_items.append(("bls_pairing_identity", [G, H, PAIR, H]))
    # signatures made with pyref
    sk = 0x2A3B4C5D6E7F8091A2B3C4D5E6F708192A3B4C5D6E7F8091A2B3C4D5E6F70819 % bls.R
    pk = bls.ec_mul(bls.g1, sk)
    pkb = bls.compress1(pk)
    def sign(sk_, pkb_, m):
        return bls.ec_mul(h2c.hash_to_g2(pkb_ + m, b"BLS_SIG_BLS12381G2_XMD:SHA-256_SSWU_RO_AUG_"), sk_)
    m1, m2 = b"hello", b""
    s1 = sign(sk, pkb, m1)
    s2 = sign(sk, pkb, m2)
    sk2 = 7
    pk2b = bls.compress1(bls.ec_mul(bls.g1, sk2))
    s3 = sign(sk2, pk2b, m1)
    agg = bls.compress2(bls.ec_add(s1, s3))
    S1, S2 = bls.compress2(s1), bls.compress2(s2)
    pair_items += [
        ("bls_verify", [S1, pkb, m1]), ("bls_verify", [S1, pkb, m2]), ("bls_verify", [S2, pkb, m2]), ("bls_verify", [agg, pkb, m1, pk2b, m1]), ("bls_verify", [agg, pk2b, m1, pkb, m1]),
        ("bls_verify", [agg, pkb, m1]), ("bls_verify", [INF2]), ("bls_verify", [S1]), ("bls_verify", [INF2, pkb, m1]), ("bls_verify", [S1, INF1, m1]), ("bls_verify", [S1, pkb]),
        ("bls_verify", [S1, off1, m1]), ("bls_verify", [g2_alpha[5], pkb, m1]), ("bls_verify", []), ("bls_verify", [S1, pkb, PAIR]), ("bls_verify", [bls.compress2(bls.ec_neg(s1)), pkb, m1]),
        ("bls_verify", [S1, bls.compress1(bls.ec_neg(pk)), m1]), ("bls_verify", [S1, pkb, m1, pkb]),
    ]
    if not quick:
        for m in (b"x" * 100, bytes(range(64))):
            pair_items.append(("bls_verify", [bls.compress2(sign(sk, pkb, m)), pkb, m]))
            pair_items.append(("bls_verify", [bls.compress2(sign(sk, pkb, m)), pkb, m + b"!"]))
    jobs += [("pairing", [it]) for it in pair_items]

    with mp.Pool(16) as pool:
        for d in pool.imap_unordered(worker, jobs):
            res.merge(d)
    res.notes["cases"] = {"hash": len(hash_items), "secp": len(secp_items) * 2, "g1": len(g1_items), "g2": len(g2_items), "pairing_verify": len(pair_items)}
    res.rule = ("every enumerated argument list is evaluated by the operator inside the freshly built wheel (run_serialized_chia_program) and by from-scratch python implementations: sha256 (hashlib), "
                "keccak256 (own Keccak-f permutation, cross-checked with hashlib.sha3_256) over argument lists of arity <=3|4 incl. block-boundary lengths and pairs; coinid over 32/31/33-byte ids x "
                "all amount encodings; secp256k1/secp256r1 verify (opcodes 64/65 and the 4-byte opcodes) over 13 key encodings (compressed, uncompressed, hybrid, infinity, wrong parity, x>=p, off-curve, "
                "32/34-byte) x 7 digests x 14 signatures (valid, high-s, r or s in {0,n,n+1}, 63/65-byte, DER-like, zero, ones); point_add / g1_subtract / g2_add / g2_subtract over every list of arity <=2|3 over "
                "a 15-/12-point alphabet (infinity, G, 2G, -G, (r-1)G, on-curve but outside the subgroup, x>=p, flipped sign flag, compression bit clear, infinity flag with non-zero body, 47/49-byte, pair); "
                "g1/g2_negate with and without RELAXED_BLS; g1/g2_multiply and pubkey_for_exp over 12 scalars (0, +-1, r-1, r, r+1, 2^255, padded forms, 300 bytes); g1/g2_map over messages x DSTs (RFC 9380, SSWU + "
                "isogeny); bls_pairing_identity and bls_verify over valid, invalid and malformed lists with signatures produced by pyref. Oracle: same result bytes / same accept-reject. Non-trivial = cases where both sides agree on a value or on a rejection.")
