NOT_APPLICABLE = {}

add("C21", "model_checking", "vh",
    "exhaustive enumeration of the varint encoding space against an independent codec",
    "Every byte string up to 3 (quick) / 4 (thorough) bytes and boundary lattices up to 9 bytes are decoded in strict and lenient mode and compared with a reference varint codec (value, consumed length, acceptance); every value in +-2^21 (quick) / +-2^27 (thorough) plus +-2^k+-d is encoded and round-tripped. A finite space enumerated completely, which a unit test cannot do.",
    "Trusts the 60-line reference codec in harness/src/props/c21.rs (written from docs/serde-2026.md); encodings of 5-8 bytes are covered on a boundary lattice, not completely.")
