// C01 — the interpreter agrees with the reference CLVM on the classic operator set.
use crate::common::*;
use crate::domains::*;
use crate::progspace::*;
use crate::refvm::{Adapters, Vm};
use crate::tree::{Enc, T, atom, cons, int_atom, list, nil, quote};
use crate::vectors;
use clvmr::chia_dialect::ClvmFlags;
use serde_json::json;

pub fn adapters() -> Adapters {
    Adapters { floor_div: true, ignore_arg_terminator: true, ignore_inner_terminator: true, softfork_guard: true }
}

/// replay the repository's v1 vectors through RefVM; any mismatch is a machinery error
pub fn validate_refvm(rep: &mut Report) -> u64 {
    let mut n = 0;
    for file in ["test-core-ops.txt", "test-more-ops.txt", "test-sha256.txt", "test-unknown-ops.txt"] {
        for v in vectors::load(file) {
            // BLS operators are outside the reference model
            if v.op == [29] || v.op == [30] || v.op.len() == 1 && v.op[0] >= 48 {
                continue;
            }
            let mut ad = adapters();
            ad.softfork_guard = false; // op vectors call the operator directly
            let mut vm = Vm::new(ad, 0);
            let r = vm.operator(&v.op, &v.args);
            let ok = match (&r, &v.expect) {
                (Err(_), None) => true,
                (Ok((c, t)), Some((et, ec))) => t == et && *c == *ec as u128,
                _ => false,
            };
            if !ok {
                rep.machinery(format!("RefVM disagrees with repository vector `{}` ({file}): got {:?}", v.line, r.map(|(c, t)| (c, t.hex()))));
            }
            n += 1;
        }
    }
    n
}

fn check_case(prog: &T, env: &T, acc: &mut Acc, space: &str, heap_too: bool) {
    let canon = |b: u64| format!("prog={} env={} budget={b}", prog.hex(), env.hex());
    let mut vm = Vm::new(adapters(), 0);
    let r = vm.eval(prog, env);
    if let Err(e) = &r {
        if e == "refvm depth" {
            acc.inc("out_of_model_scope_depth");
            return;
        }
    }
    acc.add("adapter_floor_div", vm.used.floor_div);
    acc.add("adapter_arg_list_terminator_ignored", vm.used.arg_term);
    acc.add("adapter_inner_list_terminator_ignored", vm.used.inner_term);
    acc.add("adapter_softfork_guard", vm.used.softfork);
    let c = vm.cost;
    with_loaded(prog, env, Enc::Inline, |l| {
        let o = l.run_flags(ClvmFlags::empty(), 0);
        acc.inc("runs");
        if o.panicked {
            acc.violation(canon(0), format!("[{space}] implementation panicked: {}", o.err));
            return;
        }
        match (&r, o.ok) {
            (Ok(t), true) => {
                acc.inc("both_succeed");
                if o.digest != t_digest(t) {
                    let (_, shown) = l.run_show(&clvmr::ChiaDialect::new(ClvmFlags::empty()), 0);
                    acc.violation(canon(0), format!("[{space}] result differs: implementation {shown}, reference {}", t.hex()));
                    return;
                }
                if o.cost as u128 != c {
                    acc.violation(canon(0), format!("[{space}] cost differs: implementation {}, reference {c}", o.cost));
                    return;
                }
                acc.outcome((o.digest as u64) ^ o.cost);
                // budgets: exact, one below, one above, half
                let c = c as u64;
                for b in [c, c.saturating_sub(1), c + 1, c / 2] {
                    if b == 0 {
                        continue;
                    }
                    let ob = l.run_flags(ClvmFlags::empty(), b);
                    acc.inc("runs");
                    let mut vb = Vm::new(adapters(), b);
                    let rb = vb.eval(prog, env);
                    if ob.ok != rb.is_ok() {
                        acc.violation(canon(b), format!("[{space}] under budget {b} implementation {} but reference {}", ob.brief(), rb.as_ref().map(|t| t.hex()).unwrap_or_else(|e| format!("fails ({e})"))));
                    } else if ob.ok && (ob.cost != c || ob.digest != o.digest) {
                        acc.violation(canon(b), format!("[{space}] under budget {b} a different outcome: {}", ob.brief()));
                    }
                }
            }
            (Err(_), false) => acc.inc("both_fail"),
            (Ok(t), false) => acc.violation(canon(0), format!("[{space}] implementation fails ({}) but the reference returns {} cost {c}", o.err, t.hex())),
            (Err(e), true) => acc.violation(canon(0), format!("[{space}] reference fails ({e}) but the implementation returns {}", o.brief())),
        }
    });
    // the same tree with every atom heap-backed (what operators such as substr/concat produce at run time, e.g.
    // an operator or path atom computed by the program): the reference has no notion of representation
    if heap_too {
        with_loaded(prog, env, Enc::Heap, |l| {
            let o = l.run_flags(ClvmFlags::empty(), 0);
            acc.inc("runs");
            acc.inc("heap_backed_runs");
            let same = match &r {
                Ok(t) => o.ok && !o.panicked && o.digest == t_digest(t) && o.cost as u128 == c,
                Err(_) => !o.ok && !o.panicked,
            };
            if !same {
                acc.violation(format!("prog={} env={} budget=0 atoms=heap-backed", prog.hex(), env.hex()), format!("[{space}] with heap-backed atoms the implementation gives {}, the reference {}", o.brief(), r.as_ref().map(|t| format!("{} cost {c}", t.hex())).unwrap_or_else(|e| format!("fails ({e})"))));
            }
        });
    }
}

/// softfork guards restricted to what the reference defines (classic inner programs)
pub fn p5_classic() -> ProgSpace {
    let inner: Vec<&str> = vec!["(q . 1)", "(+ (q . 1) (q . 2))", "(c (q . 1) (q . 2))", "(x)", "(sha256 (q . \"a\"))", "(concat (q . \"ab\") (q . \"cd\"))", "(f (q . 5))", "(0x3c3f (q . 1))", "2", "(a (q + 2 5) (q 7 8))"];
    let inner: Vec<Vec<u8>> = inner.iter().map(|s| parse_prog(s).ser()).collect();
    // exact costs are obtained from the reference interpreter
    let exts: Vec<Vec<u8>> = vec![vec![], vec![1], vec![2], vec![0x00], vec![0xff, 0xff, 0xff, 0xff], vec![1, 0, 0, 0, 0], vec![0x80]];
    let deltas: Vec<i64> = vec![0, 1, -1, 2, 100, -100];
    let ctxs = 4u64;
    let total = inner.len() as u64 * exts.len() as u64 * (deltas.len() as u64 + 6) * ctxs;
    ProgSpace {
        name: "P5-classic".into(),
        total,
        get: Box::new(move |i| {
            let mut r = i;
            let ctx = r % ctxs;
            r /= ctxs;
            let nd = deltas.len() as u64 + 6;
            let di = r % nd;
            r /= nd;
            let ext = &exts[(r % exts.len() as u64) as usize];
            r /= exts.len() as u64;
            let ip = crate::tree::deser(&inner[r as usize]).unwrap().0;
            let env = std_env();
            // exact cost of the guard body = 140 + cost of evaluating the inner program in env `1`
            let mut vm = Vm::new(adapters(), 0);
            let exact = match vm.eval(&ip, &env) {
                Ok(_) => vm.cost as i128 + 140,
                Err(_) => 1000,
            };
            let cost_atom = if di < deltas.len() as u64 {
                int_atom((exact + deltas[di as usize] as i128).max(-5))
            } else {
                match di - deltas.len() as u64 {
                    0 => nil(),
                    1 => atom(&[0x00, 0x00, 0x01, 0x00]), // non-canonical 256
                    2 => int_atom(-1),
                    3 => atom(&[0x01, 0, 0, 0, 0, 0, 0, 0, 0]), // 2^64
                    4 => atom(&[0x00, 0xff, 0xff, 0xff, 0xff, 0xff, 0xff, 0xff, 0xff]), // u64::MAX
                    _ => cons(atom(&[1]), nil()),
                }
            };
            let cost_arg = if matches!(cost_atom, T::P(..)) { list(&[atom(&[4]), quote(atom(&[1])), quote(nil())]) } else { quote(cost_atom) };
            let guard = list(&[atom(&[36]), cost_arg, quote(atom(ext)), quote(ip), atom(&[1])]);
            let p = match ctx {
                0 => guard,
                1 => list(&[atom(&[4]), guard, quote(atom(&[7]))]),
                2 => list(&[atom(&[4]), list(&[atom(&[14]), quote(atom(b"xy")), quote(atom(b"z"))]), guard]),
                _ => {
                    // malformed: only three arguments
                    match &guard {
                        T::P(op, args) => match &**args {
                            T::P(a0, rest) => match &**rest {
                                T::P(a1, rest2) => match &**rest2 {
                                    T::P(a2, _) => cons((**op).clone(), list(&[(**a0).clone(), (**a1).clone(), (**a2).clone()])),
                                    _ => unreachable!(),
                                },
                                _ => unreachable!(),
                            },
                            _ => unreachable!(),
                        },
                        _ => unreachable!(),
                    }
                }
            };
            (p, env)
        }),
    }
}

pub fn run(ctx: &Ctx) -> Report {
    let mut rep = Report::new("C01", "model_checking");
    let nvec = validate_refvm(&mut rep);
    rep.note("refvm_vectors_replayed", json!(nvec));
    if !rep.machinery_errors.is_empty() {
        return rep;
    }
    let mut ops = classic_ops();
    ops.extend([vec![15u8], vec![28], vec![31], vec![35]]);
    ops.extend(multibyte_ops().into_iter().filter(|o| o != &vec![0x13, 0xd6, 0x1f, 0x00] && o != &vec![0x1c, 0x3a, 0x8f, 0x00]));
    let consts = ctx.pick(a6(), a12());
    let paths = vec![vec![2u8], vec![5], vec![11]];
    let spaces: Vec<ProgSpace> = vec![
        p1("P1", ops.clone(), consts, paths, 3),
        p_raw(ops.clone(), a6()),
        p2(classic_ops(), ctx.pick(vec![vec![], vec![1], vec![0x80]], a6())),
        p3(ctx.pick(4, 5), ctx.pick(2, 3)),
        p4(ctx.pick(20, 120), true),
        p5_classic(),
        p1b(ops.clone(), ctx.pick(2, 3)),
        p_paths(40),
    ];
    let seed = ctx.seed;
    let mut notes = vec![];
    for sp in &spaces {
        let t_space = std::time::Instant::now();
        let acc = par_for(ctx, sp.total, 256, |i| { let (p, e) = sp.at(i); format!("prog={} env={}", p.hex(), e.hex()) }, |i, acc| {
            let (p, e) = sp.at(i);
            check_case(&p, &e, acc, &sp.name, !sp.name.starts_with("P3"));
            acc.inc("programs");
            acc.maybe_sample(sample_key(seed, i ^ fnv(sp.name.as_bytes())), || json!({"space": sp.name, "prog": p.hex(), "env": e.hex()}));
        });
        notes.push(json!({"space": sp.name, "wall_s": t_space.elapsed().as_secs_f64(), "programs": sp.total}));
        rep.absorb(acc);
    }
    // repository programs
    let mut acc = Acc::default();
    for (name, t) in repo_programs() {
        check_case(&t, &nil(), &mut acc, &name, true);
        acc.inc("programs");
    }
    rep.absorb(acc);
    rep.note("spaces", json!(notes));
    rep.evaluations = rep.acc.get("runs") + rep.acc.get("programs");
    rep.nontrivial = rep.acc.get("both_succeed");
    rep.states = rep.acc.get("programs");
    rep.transitions = rep.acc.get("runs");
    rep.traces = rep.acc.get("programs") - rep.acc.get("out_of_model_scope_depth");
    rep.rule = "(every space except P3 is run twice: atoms loaded in-place where possible, and every atom heap-backed as run-time operators produce them) every program of the grammars P1 (operator applications over the classic opcodes, unassigned 15/28/31/35 and multi-byte unknown opcodes, arity<=3, constants+env paths), RAW ((op . t) a b . term) forms, P2 (all ordered compositions of classic operators), P3 (every tree as a program against every small environment), P4 (recursive / allocation-heavy families for every n), P5 (softfork guards with exact, off-by-k, huge, negative and non-canonical declared costs, known/unknown extensions, failing inner programs, malformed guards) is run by the real run_program with default flags and by the reference interpreter RefVM; oracle: both fail, or same result tree and same cost, and under budgets C, C-1, C+1, C/2 the same success/failure. Consensus changes are named adapters on the reference side with use counts in coverage.counts.adapter_*. Non-trivial = programs on which both succeed (value and cost compared).".into();
    rep.trusted_base.push("harness/src/refvm.rs: transcription of the historical Python clvm interpreter, validated at start-up against the repository's v1 operator vectors".into());
    rep.assumptions.push("adapters: floor_div (no q+1 quirk for negative quotients), arg_list_terminator_ignored, inner_list_terminator_ignored, softfork_guard (u64 declared cost, guard execution, exact cost, nil), budget 0 = u64::MAX".into());
    rep
}
