// Shared infrastructure: tiers, result report, parallel deterministic
// enumeration with per-case panic capture.
use serde_json::{Map, Value, json};
use std::collections::{BTreeMap, HashSet};
use std::panic::{AssertUnwindSafe, catch_unwind};
use std::sync::Mutex;
use std::sync::atomic::{AtomicBool, AtomicU64, Ordering};
use std::time::Instant;

#[derive(Clone, Copy, PartialEq, Eq, Debug)]
pub enum Tier {
    Quick,
    Thorough,
}

pub struct Ctx {
    pub tier: Tier,
    pub seed: u64,
    pub threads: usize,
    pub start: Instant,
    pub wall_cap_s: f64,
    pub replay: Option<String>,
}

impl Ctx {
    pub fn quick(&self) -> bool {
        self.tier == Tier::Quick
    }
    pub fn pick<X>(&self, q: X, t: X) -> X {
        if self.quick() { q } else { t }
    }
    pub fn over_time(&self) -> bool {
        self.start.elapsed().as_secs_f64() > self.wall_cap_s
    }
}

#[derive(Clone, Debug)]
pub struct Violation {
    pub canon: String,
    pub detail: String,
}

/// per-worker accumulator; merged deterministically (order independent sums / set unions)
#[derive(Default)]
pub struct Acc {
    pub counts: BTreeMap<&'static str, u64>,
    pub outcomes: HashSet<u64>,
    pub violations: Vec<Violation>,
    pub violation_count: u64,
    pub samples: Vec<(u64, Value)>, // (priority key, sample)
    pub sample_worst: u64,
}

pub const MAX_VIOLATIONS_KEPT: usize = 400;

impl Acc {
    #[inline]
    pub fn inc(&mut self, k: &'static str) {
        *self.counts.entry(k).or_insert(0) += 1;
    }
    #[inline]
    pub fn add(&mut self, k: &'static str, n: u64) {
        *self.counts.entry(k).or_insert(0) += n;
    }
    pub fn max(&mut self, k: &'static str, n: u64) {
        let e = self.counts.entry(k).or_insert(0);
        if n > *e {
            *e = n;
        }
    }
    #[inline]
    pub fn outcome(&mut self, h: u64) {
        if self.outcomes.len() < 2_000_000 {
            self.outcomes.insert(h);
        }
    }
    pub fn violation(&mut self, canon: String, detail: String) {
        *self.counts.entry("violation_occurrences").or_insert(0) += 1;
        // one entry per distinct canonical case
        if self.violations.iter().any(|v| v.canon == canon) {
            return;
        }
        self.violation_count += 1;
        if self.violations.len() < MAX_VIOLATIONS_KEPT {
            self.violations.push(Violation { canon, detail });
        }
    }
    pub fn sample(&mut self, key: u64, v: Value) {
        // keep the 6 samples with smallest key (deterministic regardless of scheduling)
        self.samples.push((key, v));
        if self.samples.len() > 64 {
            self.samples.sort_by_key(|s| s.0);
            self.samples.truncate(6);
        }
    }
    /// keep the sample only if it would be among the 6 smallest keys seen by this worker
    /// (the JSON is built lazily); guarantees at least one sample whenever it is called
    #[inline]
    pub fn maybe_sample<F: FnOnce() -> Value>(&mut self, key: u64, f: F) {
        if self.samples.len() < 6 || key < self.sample_worst {
            self.samples.push((key, f()));
            if self.samples.len() > 32 {
                self.samples.sort_by_key(|s| s.0);
                self.samples.truncate(6);
            }
            if self.samples.len() >= 6 {
                let mut ks: Vec<u64> = self.samples.iter().map(|s| s.0).collect();
                ks.sort();
                self.sample_worst = ks[5];
            }
        }
    }
    pub fn merge(&mut self, o: Acc) {
        for (k, v) in o.counts {
            if k.starts_with("max_") {
                let e = self.counts.entry(k).or_insert(0);
                if v > *e {
                    *e = v;
                }
            } else {
                *self.counts.entry(k).or_insert(0) += v;
            }
        }
        self.outcomes.extend(o.outcomes);
        let kept = o.violations.len() as u64;
        for v in o.violations {
            if self.violations.iter().any(|x| x.canon == v.canon) {
                continue;
            }
            self.violation_count += 1;
            if self.violations.len() < MAX_VIOLATIONS_KEPT {
                self.violations.push(v);
            }
        }
        // distinct canons beyond the kept list cannot be de-duplicated; count them all
        self.violation_count += o.violation_count - kept;
        self.samples.extend(o.samples);
        self.samples.sort_by_key(|s| s.0);
        self.samples.truncate(6);
    }
    pub fn get(&self, k: &str) -> u64 {
        self.counts.get(k).copied().unwrap_or(0)
    }
}

pub fn fnv(data: &[u8]) -> u64 {
    let mut h: u64 = 0xcbf29ce484222325;
    for b in data {
        h ^= *b as u64;
        h = h.wrapping_mul(0x100000001b3);
    }
    h
}
pub fn fnv_mix(h: u64, data: &[u8]) -> u64 {
    let mut h = h ^ 0x9e3779b97f4a7c15;
    for b in data {
        h ^= *b as u64;
        h = h.wrapping_mul(0x100000001b3);
    }
    h
}

/// sample selection key: deterministic pseudo-random priority from (seed, index)
pub fn sample_key(seed: u64, i: u64) -> u64 {
    let mut x = seed ^ i.wrapping_mul(0x9e3779b97f4a7c15);
    x ^= x >> 33;
    x = x.wrapping_mul(0xff51afd7ed558ccd);
    x ^= x >> 33;
    x
}

static CAPPED: AtomicBool = AtomicBool::new(false);
pub fn capped() -> bool {
    CAPPED.load(Ordering::Relaxed)
}
pub fn set_capped() {
    CAPPED.store(true, Ordering::Relaxed);
}

thread_local! { static LAST_PANIC_AT: std::cell::RefCell<String> = const { std::cell::RefCell::new(String::new()) }; }
/// panics are not printed; the hook only remembers where the panic was raised (source location) so that a
/// caught panic can be reported with its origin (clvm_rs source file or harness file)
pub fn silence_panics() {
    std::panic::set_hook(Box::new(|info| {
        let loc = info.location().map(|l| format!("{}:{}", l.file(), l.line())).unwrap_or_default();
        LAST_PANIC_AT.with(|c| *c.borrow_mut() = loc);
    }));
}
/// run one case of a sequential section; a panic becomes a violation of that case and the section continues
pub fn guarded<F: FnOnce(&mut Acc)>(acc: &mut Acc, canon: &str, f: F) {
    let r = catch_unwind(AssertUnwindSafe(|| f(acc)));
    if let Err(e) = r {
        let m = format!("{} (raised at {})", panic_msg(e), last_panic_location());
        acc.violation(format!("PANIC {canon}"), m);
        acc.inc("panics");
    }
}
pub fn last_panic_location() -> String {
    LAST_PANIC_AT.with(|c| c.borrow().clone())
}

pub fn panic_msg(e: Box<dyn std::any::Any + Send>) -> String {
    if let Some(s) = e.downcast_ref::<&str>() {
        s.to_string()
    } else if let Some(s) = e.downcast_ref::<String>() {
        s.clone()
    } else {
        "panic".to_string()
    }
}

/// Run `f(i, acc)` for every i in 0..total on `threads` worker threads. Work is
/// dealt in contiguous chunks from an atomic counter; results are merged so the
/// totals are independent of scheduling. A panic inside `f` is caught and
/// recorded as a violation with canonical string `describe(i)`.
pub fn par_for<F, D>(ctx: &Ctx, total: u64, chunk: u64, describe: D, f: F) -> Acc
where
    F: Fn(u64, &mut Acc) + Sync,
    D: Fn(u64) -> String + Sync,
{
    let next = AtomicU64::new(0);
    let result = Mutex::new(Acc::default());
    let chunk = chunk.max(1);
    std::thread::scope(|s| {
        for _ in 0..ctx.threads {
            std::thread::Builder::new().stack_size(256 << 20).spawn_scoped(s, || {
                let mut acc = Acc::default();
                loop {
                    let start = next.fetch_add(chunk, Ordering::Relaxed);
                    if start >= total {
                        break;
                    }
                    if ctx.over_time() {
                        set_capped();
                        acc.add("skipped_by_wall_cap", (total - start).min(chunk));
                        continue;
                    }
                    let end = (start + chunk).min(total);
                    for i in start..end {
                        let r = catch_unwind(AssertUnwindSafe(|| f(i, &mut acc)));
                        if let Err(e) = r {
                            let m = format!("{} (raised at {})", panic_msg(e), last_panic_location());
                            acc.violation(format!("PANIC {}", describe(i)), m);
                            acc.inc("panics");
                        }
                    }
                }
                result.lock().unwrap().merge(acc);
            }).expect("spawn worker");
        }
    });
    result.into_inner().unwrap()
}

/// The report written by `vh` for the driver.
pub struct Report {
    pub property: String,
    pub acc: Acc,
    pub evaluations: u64,
    pub nontrivial: u64,
    pub states: u64,
    pub transitions: u64,
    pub traces: u64,
    pub rule: String,
    pub level: &'static str,
    pub notes: Map<String, Value>,
    pub assumptions: Vec<String>,
    pub trusted_base: Vec<String>,
    pub extra_samples: Vec<Value>,
    pub machinery_errors: Vec<String>,
}

impl Report {
    pub fn new(property: &str, level: &'static str) -> Self {
        Report {
            property: property.to_string(),
            acc: Acc::default(),
            evaluations: 0,
            nontrivial: 0,
            states: 0,
            transitions: 0,
            traces: 0,
            rule: String::new(),
            level,
            notes: Map::new(),
            assumptions: vec![],
            trusted_base: vec![],
            extra_samples: vec![],
            machinery_errors: vec![],
        }
    }
    pub fn absorb(&mut self, a: Acc) {
        self.acc.merge(a);
    }
    pub fn note(&mut self, k: &str, v: Value) {
        self.notes.insert(k.to_string(), v);
    }
    pub fn machinery(&mut self, msg: String) {
        self.machinery_errors.push(msg);
    }
    pub fn to_json(&self, ctx: &Ctx) -> Value {
        let counts: Map<String, Value> = self
            .acc
            .counts
            .iter()
            .map(|(k, v)| (k.to_string(), json!(v)))
            .collect();
        let mut samples: Vec<Value> = self.acc.samples.iter().map(|s| s.1.clone()).collect();
        samples.extend(self.extra_samples.iter().cloned());
        json!({
            "property": self.property,
            "tier": if ctx.quick() { "quick" } else { "thorough" },
            "seed": ctx.seed,
            "level": self.level,
            "evaluations": self.evaluations,
            "distinct_nontrivial": self.nontrivial,
            "states": self.states,
            "transitions": self.transitions,
            "traces_validated_against_impl": self.traces,
            "distinct_outcomes": self.acc.outcomes.len(),
            "rule": self.rule,
            "counts": counts,
            "notes": self.notes,
            "samples": samples,
            "assumptions": self.assumptions,
            "trusted_base": self.trusted_base,
            "capped": capped(),
            "violation_count": self.acc.violation_count,
            "violations": self.acc.violations.iter().map(|v| json!({"canon": v.canon, "detail": v.detail})).collect::<Vec<_>>(),
            "machinery_errors": self.machinery_errors,
            "wall_s": ctx.start.elapsed().as_secs_f64(),
        })
    }
}

pub fn hx(b: &[u8]) -> String {
    hex::encode(b)
}

/// environment with short reads: every `read` call returns at most `chunk` bytes (chunk = 1 makes every
/// multi-byte read a sequence of partial reads — the worst legal answer of the `Read` contract)
pub struct ChunkReader<'a> {
    pub data: &'a [u8],
    pub pos: usize,
    pub chunk: usize,
}
impl<'a> ChunkReader<'a> {
    pub fn new(data: &'a [u8], chunk: usize) -> Self {
        ChunkReader { data, pos: 0, chunk }
    }
}
impl std::io::Read for ChunkReader<'_> {
    fn read(&mut self, buf: &mut [u8]) -> std::io::Result<usize> {
        let n = buf.len().min(self.chunk).min(self.data.len() - self.pos);
        buf[..n].copy_from_slice(&self.data[self.pos..self.pos + n]);
        self.pos += n;
        Ok(n)
    }
}
/// environment with short writes: every `write` call accepts at most `chunk` bytes
pub struct ChunkWriter {
    pub out: Vec<u8>,
    pub chunk: usize,
}
impl std::io::Write for ChunkWriter {
    fn write(&mut self, buf: &[u8]) -> std::io::Result<usize> {
        let n = buf.len().min(self.chunk);
        self.out.extend_from_slice(&buf[..n]);
        Ok(n)
    }
    fn flush(&mut self) -> std::io::Result<()> {
        Ok(())
    }
}
