NOT_APPLICABLE = {}

add("C21", "model_checking", "vh",
    "exhaustive enumeration of the varint encoding space against an independent codec",
    "Every byte string up to 3 (quick) / 4 (thorough) bytes and boundary lattices up to 9 bytes are decoded in strict and lenient mode and compared with a reference varint codec (value, consumed length, acceptance); every value in +-2^21 (quick) / +-2^27 (thorough) plus +-2^k+-d is encoded and round-tripped. A finite space enumerated completely, which a unit test cannot do.",
    "Trusts the 60-line reference codec in harness/src/props/c21.rs (written from docs/serde-2026.md); encodings of 5-8 bytes are covered on a boundary lattice, not completely.")

add("C15", "model_checking", "vh",
    "exhaustive small-scope tree enumeration against an independent classic codec",
    "Every tree of TREES(4|5, A6) in 3 sharing modes x 3 atom representations, atoms at every length-prefix boundary, list/deep/doubling families and the prefix encoder up to 2^34 are serialized by the real code and compared with an independent encoder/decoder; four length functions and is_canonical_serialization are checked on every output. The converse direction is decided on C16's byte-string space.",
    "Trusts the reference codec in harness/src/tree.rs. Atoms >= 2^32 bytes reach only the prefix/length arithmetic (lazily zeroed buffers); trees larger than the stated scopes are not covered.")

add("C16", "model_checking", "vh",
    "exhaustive byte-string enumeration, three decoders against a reference decoder",
    "All byte strings of length <= 3, all strings of length <= 6|7 over the 15-byte class alphabet, (thorough) all 4-byte strings over a 64-byte alphabet, every truncation/one-byte corruption of every TREES(4,A6) serialization and declared-size probes go through node_from_stream, parse_triples, tree_hash_from_stream and is_canonical_serialization; acceptance, bytes consumed, tree, triple structure, hash and canonicity are compared with an independent decoder; heap requests per input are bounded with a counting allocator.",
    "Trusts the reference decoder (tree.rs) and reference SHA-256 (refsha.rs, self-tested at start-up). Inputs longer than the bounds are covered only structurally.")

add("C29", "exploration", "vh",
    "exhaustive (tree, limit) enumeration of both limited serializers",
    "Every tree of two small-scope tree spaces (one back-reference rich) with EVERY limit 0..=len+1 through node_to_bytes_limit and node_to_bytes_backrefs_limit; below the length the error must be exactly OutOfMemory, whatever token is being written, at/above it the unlimited bytes.",
    "Differential against the unlimited serializers of the same crate (whose correctness is C15/C17's subject).")
