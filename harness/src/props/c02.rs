// C02 — the cost budget is sound, monotone and tight.
use crate::common::*;
use crate::domains::*;
use crate::progspace::*;
use crate::tree::{Enc, T};
use clvmr::chia_dialect::{ClvmFlags, MEMPOOL_MODE};
use serde_json::json;

fn uses_grandfathered_guard(prog: &T, flags: ClvmFlags) -> bool {
    // syntactic over-approximation: NEW_COST_MODEL and the program contains a softfork opcode atom anywhere
    if !flags.contains(ClvmFlags::NEW_COST_MODEL) {
        return false;
    }
    fn has36(t: &T) -> bool {
        match t {
            T::A(b) => b[..] == [36],
            T::P(l, r) => has36(l) || has36(r),
        }
    }
    has36(prog)
}

fn check_case(prog: &T, env: &T, flags: ClvmFlags, sweep_cap: u64, acc: &mut Acc, space: &str) {
    let canon = |b: u64| format!("prog={} env={} flags={:#x} budget={b}", prog.hex(), env.hex(), flags.bits());
    with_loaded(prog, env, Enc::Inline, |l| {
        clvmr::verif::set_cost_log(true);
        let base = l.run_flags(flags, 0);
        let log = clvmr::verif::take_cost_log();
        clvmr::verif::set_cost_log(false);
        acc.inc("runs");
        if base.panicked {
            acc.violation(canon(0), format!("[{space}] panic with unlimited budget: {}", base.err));
            return;
        }
        if !base.ok {
            acc.inc("fails_unlimited");
            // "0 means unlimited" and upward closure: a program that runs out of cost with NO budget must not succeed
            // under any finite budget
            if base.err.contains("cost exceeded") {
                for b in [1u64 << 20, 1 << 40, 1 << 62, (1 << 63) - 1] {
                    let o = l.run_flags(flags, b);
                    acc.inc("runs");
                    if o.ok {
                        acc.violation(canon(b), format!("[{space}] succeeds under the finite budget {b} ({}) but fails with 'cost exceeded' when the budget is 0 (unlimited)", o.brief()));
                        break;
                    }
                }
            }
            return;
        }
        acc.inc("programs_succeeding");
        let c = base.cost;
        // budgets to try
        let mut budgets: Vec<u64> = vec![u64::MAX, u64::MAX - 1, u64::MAX - 2, 1 << 32, 1 << 63, c, c + 1, c + 2, c.saturating_sub(1)];
        let swept = c <= sweep_cap;
        if swept {
            budgets.extend(1..=c + 2);
            acc.inc("fully_swept_programs");
        } else {
            // thresholds from the logged comparisons of the unlimited run: a comparison (cost, max) made with
            // unlimited budget u64::MAX has slack max-cost; under budget M it fails iff M < u64::MAX - slack
            for (cost, max) in &log {
                if max >= cost {
                    let theta = u64::MAX - (max - cost);
                    budgets.push(theta);
                    budgets.push(theta.saturating_sub(1));
                    budgets.push(theta.saturating_add(1));
                }
            }
            acc.inc("threshold_programs");
        }
        budgets.sort();
        budgets.dedup();
        budgets.retain(|b| *b != 0);
        let mut min_ok: Option<u64> = None;
        let mut seen_fail_after_ok = false;
        let mut classes = 0u64;
        let mut last: Option<bool> = None;
        for b in &budgets {
            let o = l.run_flags(flags, *b);
            acc.inc("runs");
            if o.panicked {
                acc.violation(canon(*b), format!("[{space}] panic: {}", o.err));
                return;
            }
            if last != Some(o.ok) {
                classes += 1;
                last = Some(o.ok);
            }
            if o.ok {
                if o.cost > *b {
                    acc.violation(canon(*b), format!("[{space}] succeeded with cost {} > budget {b}", o.cost));
                }
                if o.cost != c || o.digest != base.digest {
                    acc.violation(canon(*b), format!("[{space}] outcome depends on the budget: {} vs unlimited {}", o.brief(), base.brief()));
                }
                if min_ok.is_none() {
                    min_ok = Some(*b);
                }
            } else {
                if min_ok.is_some() && !seen_fail_after_ok {
                    seen_fail_after_ok = true;
                    acc.violation(canon(*b), format!("[{space}] succeeding budgets are not upward closed: fails at {b} ({}) but succeeds at {}", o.err, min_ok.unwrap()));
                }
                if !o.is_cost_exceeded() {
                    acc.violation(canon(*b), format!("[{space}] budget {b} below a succeeding budget fails with '{}' instead of cost exceeded", o.err));
                }
            }
        }
        if let Some(m) = min_ok {
            if !uses_grandfathered_guard(prog, flags) && m != c {
                acc.violation(canon(m), format!("[{space}] smallest succeeding budget tried is {m} but the cost is {c}"));
            }
            if m > c && !uses_grandfathered_guard(prog, flags) {
                acc.violation(canon(c), format!("[{space}] budget equal to the cost {c} does not succeed"));
            }
        }
        if classes >= 2 {
            acc.inc("programs_with_budget_classes");
        }
        // soundness of the threshold argument on cheap programs: thresholds predicted from the log must contain the real one
        if swept && !log.is_empty() && !uses_grandfathered_guard(prog, flags) {
            let predicted = log.iter().any(|(cost, max)| max >= cost && u64::MAX - (max - cost) == c);
            if !predicted {
                acc.inc("threshold_prediction_misses");
            }
        }
        acc.outcome(c ^ (base.digest as u64));
    });
}

pub fn run(ctx: &Ctx) -> Report {
    let mut rep = Report::new("C02", "exploration");
    let sweep_cap = ctx.pick(1500u64, 6000);
    let ops = { let mut o = all_single_byte_ops(); o.extend(multibyte_ops()); o };
    let spaces: Vec<ProgSpace> = vec![
        // big operands (600/43/129 bytes): early in-operator budget checks whose estimate grows with operand
        // length are only distinguishable from the final charge when the operands are long
        p1b(ops.clone(), ctx.pick(2, 3)),
        p1("P1", ops, ctx.pick(vec![vec![], vec![1], vec![0x80], vec![0x00, 0x80]], a6()), vec![vec![2u8], vec![11]], ctx.pick(2, 3)),
        p2(classic_ops(), ctx.pick(vec![vec![1], vec![0x80]], vec![vec![], vec![1], vec![0x80]])),
        p4(ctx.pick(12, 60), false),
        p5_full(),
        p_guard_args(),
        p_guard_then_op(),
        p_vectors(ctx.pick(2, 8)),
        p_paths(40),
    ];
    let flagsets: Vec<ClvmFlags> = vec![ClvmFlags::empty(), ClvmFlags::NEW_COST_MODEL, MEMPOOL_MODE, MEMPOOL_MODE | ClvmFlags::NEW_COST_MODEL, ClvmFlags::ENABLE_GC | ClvmFlags::MALACHITE];
    let seed = ctx.seed;
    let mut notes = vec![];
    // P1b additionally runs with every operator family enabled outside a guard
    let mut flagsets_ext = flagsets.clone();
    flagsets_ext.push(ClvmFlags::ENABLE_SHA256_TREE | ClvmFlags::ENABLE_KECCAK_OPS_OUTSIDE_GUARD | ClvmFlags::ENABLE_SECP_OPS);
    flagsets_ext.push(ClvmFlags::ENABLE_SHA256_TREE | ClvmFlags::ENABLE_KECCAK_OPS_OUTSIDE_GUARD | ClvmFlags::ENABLE_SECP_OPS | ClvmFlags::NEW_COST_MODEL);
    for sp in &spaces {
        let t_space = std::time::Instant::now();
        let flagsets = if sp.name.starts_with("P1b") { &flagsets_ext } else { &flagsets };
        let nf = flagsets.len() as u64;
        let acc = par_for(ctx, sp.total * nf, 64, |i| { let (p, e) = sp.at(i / nf); format!("prog={} env={} flags={:#x}", p.hex(), e.hex(), flagsets[(i % nf) as usize].bits()) }, |i, acc| {
            let (p, e) = sp.at(i / nf);
            let f = flagsets[(i % nf) as usize];
            check_case(&p, &e, f, sweep_cap, acc, &sp.name);
            acc.inc("cases");
            acc.maybe_sample(sample_key(seed, i ^ fnv(sp.name.as_bytes())), || json!({"space": sp.name, "prog": p.hex(), "env": e.hex(), "flags": format!("{:#x}", f.bits())}));
        });
        notes.push(json!({"space": sp.name, "wall_s": t_space.elapsed().as_secs_f64(), "programs": sp.total, "flag_sets": nf}));
        rep.absorb(acc);
    }
    rep.note("spaces", json!(notes));
    rep.note("sweep_cap", json!(sweep_cap));
    if rep.acc.get("threshold_prediction_misses") > 0 {
        rep.machinery(format!("threshold extraction from the budget-comparison log (hook H2) missed the real threshold on {} fully swept programs: an unlogged budget comparison exists", rep.acc.get("threshold_prediction_misses")));
    }
    rep.evaluations = rep.acc.get("runs");
    rep.nontrivial = rep.acc.get("programs_with_budget_classes");
    rep.states = rep.acc.get("cases");
    rep.transitions = rep.acc.get("runs");
    rep.traces = rep.acc.get("programs_succeeding");
    rep.rule = format!("every program of P1 and P1b (all assigned, unassigned and multi-byte opcodes; P1b = operands of 600/43/129 bytes, also with the sha256tree/keccak/secp families enabled), P2, P4 (families, every n) and P5 (guards) x 5 flag sets that succeeds with unlimited budget: if its cost C <= {sweep_cap} EVERY budget 1..=C+2 plus 2^32, 2^63, u64::MAX-{{0,1,2}}; otherwise every threshold extracted from the logged budget comparisons (hook H2) +-1. Oracles: success => cost <= budget; all successes identical; successes upward closed; failures below are exactly 'cost exceeded'; smallest succeeding budget == C unless a grandfathered guard may be involved. The log-based threshold prediction is validated against the full sweep on every cheap program. Non-trivial = programs that show at least two budget classes.");
    rep
}
