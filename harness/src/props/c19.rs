// C19 — incremental serializer histories (explicit-state search over add/undo histories).
use crate::common::*;
use crate::props::c17::salts;
use crate::refserde;
use crate::tree::{self, T, atom, cons};
use clvmr::allocator::{Allocator, NodePtr};
use clvmr::serde::{Serializer, UndoState, node_from_bytes_backrefs, node_from_bytes_backrefs_old};
use serde_json::json;

// fragment description: tree over leaves X, Y, S(entinel)
#[derive(Clone, Debug, PartialEq, Eq, Hash)]
pub enum F {
    X,
    Y,
    S,
    P(Box<F>, Box<F>),
}
fn p(a: F, b: F) -> F {
    F::P(Box::new(a), Box::new(b))
}
fn xy() -> F {
    p(F::X, F::Y)
}
pub fn fragments() -> Vec<(&'static str, F)> {
    vec![
        ("x", F::X),
        ("xy", xy()),
        ("(xy.x)", p(xy(), F::X)),
        ("(xy.xy)", p(xy(), xy())),
        ("S", F::S),
        ("(x.S)", p(F::X, F::S)),
        ("(S.x)", p(F::S, F::X)),
        ("(xy.S)", p(xy(), F::S)),
        ("(S.xy)", p(F::S, xy())),
        ("((xy.x).S)", p(p(xy(), F::X), F::S)),
        ("(xy.(y.S))", p(xy(), p(F::Y, F::S))),
        ("((x.S).xy)", p(p(F::X, F::S), xy())),
        ("(S.S)", p(F::S, F::S)),
        ("((x.S).S)", p(p(F::X, F::S), F::S)),
        ("(S.(xy.S))", p(F::S, p(xy(), F::S))),
        // '#': identical sub-fragments are ONE shared node (the sentinel is reached twice through one pair)
        ("((x.S).(x.S))#", p(p(F::X, F::S), p(F::X, F::S))),
        ("(xy.((x.S).(x.S)))#", p(xy(), p(p(F::X, F::S), p(F::X, F::S)))),
    ]
}
fn count_s(f: &F) -> usize {
    match f {
        F::S => 1,
        F::P(a, b) => count_s(a) + count_s(b),
        _ => 0,
    }
}

// model tree with holes
#[derive(Clone, Debug)]
enum M {
    Leaf(T),
    Hole,
    P(Box<M>, Box<M>),
}
fn to_m(f: &F) -> M {
    match f {
        F::X => M::Leaf(atom(b"foobar")),
        F::Y => M::Leaf(atom(b"bazbaz")),
        F::S => M::Hole,
        F::P(a, b) => M::P(Box::new(to_m(a)), Box::new(to_m(b))),
    }
}
/// fill the first hole in pre-order; returns true if a hole was filled
fn fill_first(m: &mut M, with: &M) -> bool {
    match m {
        M::Hole => {
            *m = with.clone();
            true
        }
        M::Leaf(_) => false,
        M::P(a, b) => fill_first(a, with) || fill_first(b, with),
    }
}
fn holes(m: &M) -> usize {
    match m {
        M::Hole => 1,
        M::Leaf(_) => 0,
        M::P(a, b) => holes(a) + holes(b),
    }
}
fn m_to_t(m: &M) -> T {
    match m {
        M::Leaf(t) => t.clone(),
        M::Hole => panic!("hole"),
        M::P(a, b) => cons(m_to_t(a), m_to_t(b)),
    }
}

#[derive(Clone, Copy, Debug, PartialEq, Eq)]
pub enum Ev {
    Add(u8, bool), // fragment index, reuse-the-same-NodePtr
    Undo(u8),      // restore to the state saved before retained add #k
}

pub fn ev_str(h: &[Ev]) -> String {
    let fr = fragments();
    h.iter()
        .map(|e| match e {
            Ev::Add(f, reuse) => format!("Add{}({})", if *reuse { "R" } else { "F" }, fr[*f as usize].0),
            Ev::Undo(k) => format!("Undo({k})"),
        })
        .collect::<Vec<_>>()
        .join(" ")
}

struct World {
    a: Allocator,
    sentinel: NodePtr,
    x: NodePtr,
    y: NodePtr,
    reuse: Vec<NodePtr>,
}
/// like build_frag, but structurally equal sub-fragments become one shared node
fn build_frag_shared(a: &mut Allocator, f: &F, s: NodePtr, x: NodePtr, y: NodePtr, memo: &mut Vec<(F, NodePtr)>) -> NodePtr {
    if let Some((_, n)) = memo.iter().find(|(g, _)| g == f) {
        return *n;
    }
    let n = match f {
        F::X => x,
        F::Y => y,
        F::S => s,
        F::P(l, r) => {
            let l = build_frag_shared(a, l, s, x, y, memo);
            let r = build_frag_shared(a, r, s, x, y, memo);
            a.new_pair(l, r).unwrap()
        }
    };
    memo.push((f.clone(), n));
    n
}
fn build_frag(a: &mut Allocator, f: &F, s: NodePtr, x: NodePtr, y: NodePtr, fresh_atoms: bool) -> NodePtr {
    match f {
        F::X => if fresh_atoms { a.new_atom(b"foobar").unwrap() } else { x },
        F::Y => if fresh_atoms { a.new_atom(b"bazbaz").unwrap() } else { y },
        F::S => s,
        F::P(l, r) => {
            let l = build_frag(a, l, s, x, y, fresh_atoms);
            let r = build_frag(a, r, s, x, y, fresh_atoms);
            a.new_pair(l, r).unwrap()
        }
    }
}
fn world() -> World {
    let mut a = Allocator::new();
    let sentinel = a.new_pair(NodePtr::NIL, NodePtr::NIL).unwrap();
    let x = a.new_atom(b"foobar").unwrap();
    let y = a.new_atom(b"bazbaz").unwrap();
    let mut reuse = vec![];
    for (name, f) in fragments() {
        let n = if name.ends_with('#') { build_frag_shared(&mut a, &f, sentinel, x, y, &mut vec![]) } else { build_frag(&mut a, &f, sentinel, x, y, false) };
        reuse.push(n);
    }
    World { a, sentinel, x, y, reuse }
}

pub struct Outcome {
    pub problem: Option<String>,
    pub done: bool,
    pub pending: usize,      // number of saved states
    pub trace: Vec<Vec<u8>>, // serializer bytes after each event
    pub final_bytes: Option<Vec<u8>>,
}

/// run one history on a fresh Serializer and compare with the model after every event
pub fn run_history(h: &[Ev], salt: Option<u64>) -> Outcome {
    clvmr::verif::set_salt(salt);
    let mut w = world();
    let fr = fragments();
    let mut ser = Serializer::new(Some(w.sentinel));
    // retained adds: (undo state, bytes before, model before, done before)
    let mut saved: Vec<(UndoState, Vec<u8>, Option<M>, bool)> = vec![];
    let mut model: Option<M> = None;
    let mut done = false;
    let mut trace = vec![];
    let mut problem = None;
    for ev in h {
        match ev {
            Ev::Add(fi, reuse) => {
                let f = &fr[*fi as usize].1;
                let node = if *reuse {
                    w.reuse[*fi as usize]
                } else if fr[*fi as usize].0.ends_with('#') {
                    build_frag_shared(&mut w.a, f, w.sentinel, w.x, w.y, &mut vec![])
                } else {
                    build_frag(&mut w.a, f, w.sentinel, w.x, w.y, true)
                };
                let before = ser.get_ref().clone();
                let mbefore = model.clone();
                let (d, undo) = match ser.add(&w.a, node) {
                    Ok(r) => r,
                    Err(e) => {
                        problem = Some(format!("add failed: {e}"));
                        break;
                    }
                };
                saved.push((undo, before, mbefore, done));
                let fm = to_m(f);
                match &mut model {
                    None => model = Some(fm),
                    Some(m) => {
                        let ok = fill_first(m, &fm);
                        assert!(ok, "enumerator bug: add without a pending hole");
                    }
                }
                let model_done = holes(model.as_ref().unwrap()) == 0;
                if d != model_done {
                    problem = Some(format!("add returned done={d} but the assembled tree has {} unfilled sentinel positions", holes(model.as_ref().unwrap())));
                    break;
                }
                done = d;
                if done {
                    let bytes = ser.get_ref().clone();
                    let expect = m_to_t(model.as_ref().unwrap());
                    let mut da = Allocator::new();
                    let r1 = node_from_bytes_backrefs(&mut da, &bytes).map(|n| tree::read(&da, n));
                    let r2 = node_from_bytes_backrefs_old(&mut da, &bytes).map(|n| tree::read(&da, n));
                    let r3 = refserde::deser_backrefs(&bytes).map(|d| d.tree);
                    if r1.as_ref().ok() != Some(&expect) || r2.as_ref().ok() != Some(&expect) || r3.as_ref() != Some(&expect) {
                        problem = Some(format!(
                            "completed serialization {} decodes to {} (legacy {}, reference {}), expected the assembled tree {}",
                            hx(&bytes),
                            r1.map(|t| t.hex()).unwrap_or_else(|e| format!("error {e}")),
                            r2.map(|t| t.hex()).unwrap_or_else(|e| format!("error {e}")),
                            r3.map(|t| t.hex()).unwrap_or_else(|| "reject".into()),
                            expect.hex()
                        ));
                        break;
                    }
                    if bytes.len() as u64 != ser.size() {
                        problem = Some("size() != get_ref().len()".into());
                        break;
                    }
                }
            }
            Ev::Undo(k) => {
                let k = *k as usize;
                let (undo, before, mbefore, dbefore) = saved[k].clone();
                saved.truncate(k);
                ser.restore(undo);
                model = mbefore;
                done = dbefore;
                if *ser.get_ref() != before || ser.size() != before.len() as u64 {
                    problem = Some(format!("after undo the serializer holds {} (size {}), before the undone add it held {}", hx(ser.get_ref()), ser.size(), hx(&before)));
                    break;
                }
            }
        }
        trace.push(ser.get_ref().clone());
    }
    clvmr::verif::set_salt(None);
    let final_bytes = if done && problem.is_none() { Some(ser.get_ref().clone()) } else { None };
    Outcome { problem, done, pending: saved.len(), trace, final_bytes }
}

struct Space {
    name: &'static str,
    frags: Vec<u8>,        // fragment indices usable
    reuse_ok: Vec<u8>,     // fragment indices that may be added through one shared NodePtr
    max_adds: usize,
    max_undos: usize,
    max_events: usize,
}

fn explore(ctx: &Ctx, sp: &Space, rep: &mut Report, sl: &[u64]) -> serde_json::Value {
    let seed = ctx.seed;
    let mut frontier: Vec<Vec<Ev>> = vec![vec![]];
    let mut total_states = 0u64;
    let mut total_trans = 0u64;
    let mut per_level = vec![];
    for level in 0..sp.max_events {
        let fr = &frontier;
        let next = std::sync::Mutex::new(Vec::<Vec<Ev>>::new());
        let acc = par_for(ctx, fr.len() as u64, 8, |i| format!("[{}] {}", sp.name, ev_str(&fr[i as usize])), |i, acc| {
            let h = &fr[i as usize];
            let base = run_history(h, None);
            assert!(base.problem.is_none());
            let adds = h.iter().filter(|e| matches!(e, Ev::Add(..))).count();
            let undos = h.len() - adds;
            let mut cands: Vec<Ev> = vec![];
            if !base.done && adds < sp.max_adds {
                for f in &sp.frags {
                    cands.push(Ev::Add(*f, false));
                    if sp.reuse_ok.contains(f) {
                        cands.push(Ev::Add(*f, true));
                    }
                }
            }
            if undos < sp.max_undos {
                for k in 0..base.pending {
                    cands.push(Ev::Undo(k as u8));
                }
            }
            let mut local = vec![];
            for ev in cands {
                let mut h2 = h.clone();
                h2.push(ev);
                acc.inc("transitions");
                let o = run_history(&h2, None);
                if let Some(p) = o.problem {
                    acc.violation(format!("[{}] {}", sp.name, ev_str(&h2)), p);
                    acc.inc("first_divergences");
                    continue;
                }
                if o.done {
                    acc.inc("completed_serializations");
                    // salt independence: every completed history under 2 salts, every 32nd (by a fixed hash of the
                    // history, independent of VERIF_SEED) under all
                    let ns = if fnv(ev_str(&h2).as_bytes()) % 32 == 0 { sl.len() } else { 2 };
                    for s in &sl[..ns] {
                        let alt = run_history(&h2, Some(*s));
                        acc.inc("salted_runs");
                        if alt.trace != o.trace || alt.problem.is_some() {
                            acc.violation(format!("[{}] {}", sp.name, ev_str(&h2)), format!("bytes depend on the hashing salt {s:#x}"));
                            break;
                        }
                    }
                    if count_back(&o) > 0 {
                        acc.inc("completed_with_backrefs");
                    }
                    acc.outcome(fnv(o.final_bytes.as_ref().unwrap()));
                }
                if matches!(ev, Ev::Undo(_)) {
                    acc.inc("undo_transitions");
                }
                let sk = sample_key(seed, fnv(ev_str(&h2).as_bytes()));
                acc.maybe_sample(sk, || json!({"space": sp.name, "history": ev_str(&h2), "bytes": o.trace.last().map(|b| hx(b))}));
                local.push(h2);
            }
            next.lock().unwrap().extend(local);
        });
        total_trans += acc.get("transitions");
        let mut nx = next.into_inner().unwrap();
        nx.sort_by_key(|h| ev_str(h));
        total_states += nx.len() as u64;
        per_level.push(json!({"level": level + 1, "histories": nx.len(), "transitions": acc.get("transitions")}));
        rep.absorb(acc);
        frontier = nx;
        if frontier.is_empty() || capped() {
            break;
        }
    }
    rep.states += total_states + 1;
    rep.transitions += total_trans;
    json!({"space": sp.name, "fragments": sp.frags.iter().map(|f| fragments()[*f as usize].0).collect::<Vec<_>>(), "reuse": sp.reuse_ok.iter().map(|f| fragments()[*f as usize].0).collect::<Vec<_>>(), "max_adds": sp.max_adds, "max_undos": sp.max_undos, "max_events": sp.max_events, "levels": per_level})
}

pub fn run(ctx: &Ctx) -> Report {
    let mut rep = Report::new("C19", "model_checking");
    let sl = salts(ctx);
    let fr = fragments();
    let idx = |n: &str| fr.iter().position(|f| f.0 == n).unwrap() as u8;
    let single: Vec<u8> = (0..fr.len() as u8).filter(|i| count_s(&fr[*i as usize].1) <= 1).collect();
    let tail: Vec<u8> = ["x", "xy", "(xy.x)", "(xy.xy)", "(x.S)", "(xy.S)", "((xy.x).S)", "(xy.(y.S))"].iter().map(|n| idx(n)).collect();
    let all: Vec<u8> = (0..fr.len() as u8).collect();
    let nontail_single: Vec<u8> = single.iter().copied().filter(|f| !tail.contains(f)).collect();
    let _ = &nontail_single;
    let spaces = vec![
        // A: the way the serializer is used (and tested) upstream: at most one sentinel per fragment and
        //    the sentinel in tail position (nothing is serialized after it inside the fragment); fresh
        //    nodes or one re-used NodePtr; undo to any saved state. Deep bounds.
        Space { name: "A", frags: tail.clone(), reuse_ok: tail.clone(), max_adds: ctx.pick(4, 5), max_undos: 2, max_events: ctx.pick(5, 7) },
        // N: sentinel in any position (single occurrence), fresh nodes, one undo
        Space { name: "N", frags: single.clone(), reuse_ok: vec![], max_adds: 3, max_undos: 1, max_events: 4 },
        // B: fragments with repeated sentinels, fresh nodes, no undo
        Space { name: "B", frags: all.clone(), reuse_ok: vec![], max_adds: 4, max_undos: 0, max_events: 4 },
        // S: fragments whose two sentinel occurrences are reached through ONE shared pair node, followed by plain
        //    and tail-sentinel fragments, one undo
        Space { name: "S", frags: { let mut v: Vec<u8> = ["x", "xy", "(x.S)", "(xy.S)"].iter().map(|n| idx(n)).collect(); v.push(idx("((x.S).(x.S))#")); v.push(idx("(xy.((x.S).(x.S)))#")); v }, reuse_ok: vec![], max_adds: 4, max_undos: 1, max_events: 5 },
        // C: any single-sentinel fragment re-used through one NodePtr, no undo
        Space { name: "C", frags: single.clone(), reuse_ok: single.clone(), max_adds: 3, max_undos: 0, max_events: 3 },
    ];
    let mut notes = vec![];
    for sp in &spaces {
        notes.push(explore(ctx, sp, &mut rep, &sl));
    }
    rep.note("spaces", json!(notes));
    // long-list family: (blob 1 2 ... n blob) added in two pieces (split after k items, sentinel as the tail of the
    // first piece), with and without an undone add in between: the back-reference to `blob` crosses the two adds
    // with a path of about n bits — every n up to 160|600 (path buffers of 64, 128, 256, 512 bits are crossed)
    {
        let mut acc = Acc::default();
        let nmax = ctx.pick(160usize, 600);
        for n in 1..=nmax {
            for split in [1usize, 1 + n / 2, n + 1] {
                for with_undo in [false, true] {
                    let canon = format!("long list n={n} split={split} undone_add_between={with_undo}");
                    guarded(&mut acc, &canon, |acc| {
                        acc.inc("long_list_histories");
                        let mut a = Allocator::new();
                        let sentinel = a.new_pair(NodePtr::NIL, NodePtr::NIL).unwrap();
                        let blob = a.new_atom(&[0x5a; 100]).unwrap();
                        let other = a.new_atom(b"something else").unwrap();
                        let mut items = vec![blob];
                        let mut model_items = vec![atom(&[0x5a; 100])];
                        for i in 1..=n {
                            items.push(a.new_small_number(i as u32).unwrap());
                            model_items.push(crate::tree::int_atom(i as i128));
                        }
                        items.push(blob);
                        model_items.push(atom(&[0x5a; 100]));
                        let mk = |a: &mut Allocator, it: &[NodePtr], tail: NodePtr| it.iter().rev().fold(tail, |t, i| a.new_pair(*i, t).unwrap());
                        let t1 = mk(&mut a, &items[..split], sentinel);
                        let t2 = mk(&mut a, &items[split..], NodePtr::NIL);
                        let t_undone = a.new_pair(other, sentinel).unwrap();
                        let expect = model_items.iter().rev().fold(atom(&[]), |t, i| cons(i.clone(), t));
                        let mut ser = Serializer::new(Some(sentinel));
                        let r: Result<(), String> = (|| {
                            let (d, _) = ser.add(&a, t1).map_err(|e| e.to_string())?;
                            if d {
                                return Err("done after the first piece".into());
                            }
                            if with_undo {
                                let before = ser.get_ref().clone();
                                let (d, undo) = ser.add(&a, t_undone).map_err(|e| e.to_string())?;
                                if d {
                                    return Err("done after a piece that ends in the sentinel".into());
                                }
                                ser.restore(undo);
                                if ser.get_ref() != &before || ser.size() != before.len() as u64 {
                                    return Err("undo did not restore the bytes".into());
                                }
                            }
                            let (d, _) = ser.add(&a, t2).map_err(|e| e.to_string())?;
                            if !d {
                                return Err("not done after the last piece".into());
                            }
                            Ok(())
                        })();
                        if let Err(e) = r {
                            acc.violation(canon.clone(), e);
                            return;
                        }
                        let bytes = ser.into_inner();
                        let mut da = Allocator::new();
                        let r1 = node_from_bytes_backrefs(&mut da, &bytes).map(|n| tree::read(&da, n));
                        let r3 = refserde::deser_backrefs(&bytes).map(|d| d.tree);
                        if r1.as_ref().ok() != Some(&expect) || r3.as_ref() != Some(&expect) {
                            acc.violation(canon.clone(), format!("completed serialization ({} bytes) does not decode to the list", bytes.len()));
                        } else {
                            acc.inc("completed_serializations");
                        }
                    });
                }
            }
        }
        rep.transitions += acc.get("long_list_histories");
        rep.absorb(acc);
    }
    rep.traces = rep.transitions;
    rep.evaluations = rep.transitions + rep.acc.get("salted_runs");
    rep.nontrivial = rep.acc.get("completed_serializations");
    rep.rule = format!("explicit-state search over add/undo histories of the real Serializer, five spaces (see notes.spaces) plus a long-list family (every distance 1..160|600 between two occurrences of one atom split over two adds, with/without an undone add in between): {} fragments over two 6-byte atoms, xy=(x . y) and 0, 1 or 2 sentinel occurrences in every position; each add allocates the fragment anew (F) or re-uses one NodePtr (R); events Add(f), Undo to any saved state (the deviation that is bounded); each history is replayed on a fresh Serializer, a violating history is reported once and not extended. Oracle: after an undo get_ref()/size() equal the bytes recorded before the undone add; add returns done exactly when the assembled tree has no unfilled sentinel; completed bytes decode (new, legacy, reference decoder) to the tree assembled by filling sentinel positions in serialization order; byte traces equal across hashing salts (hook H3). Non-trivial = histories that complete a serialization.", fr.len());
    rep.assumptions.push("sentinel positions are filled in serialization (pre-order) order by successive additions".into());
    rep
}

fn count_back(o: &Outcome) -> usize {
    o.final_bytes.as_ref().map(|b| b.iter().filter(|x| **x == 0xfe).count()).unwrap_or(0)
}
