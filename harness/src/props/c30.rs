// C30 — RuntimeDialect with the standard table matches ChiaDialect.
use crate::common::*;
use crate::domains::*;
use crate::progspace::*;
use crate::tree::{Enc, T};
use clvmr::chia_dialect::{ChiaDialect, ClvmFlags};
use clvmr::runtime_dialect::RuntimeDialect;
use serde_json::json;
use std::collections::HashMap;

/// the standard table: every (opcode -> op_*) assignment of ChiaDialect::op whose function name
/// f_table::opcode_by_name knows (48 coinid and 62..65 have no name and are left out)
pub fn standard_table() -> Vec<(&'static str, u8)> {
    vec![
        ("op_if", 3), ("op_cons", 4), ("op_first", 5), ("op_rest", 6), ("op_listp", 7), ("op_raise", 8), ("op_eq", 9),
        ("op_gr_bytes", 10), ("op_sha256", 11), ("op_substr", 12), ("op_strlen", 13), ("op_concat", 14),
        ("op_add", 16), ("op_subtract", 17), ("op_multiply", 18), ("op_div", 19), ("op_divmod", 20), ("op_gr", 21),
        ("op_ash", 22), ("op_lsh", 23), ("op_logand", 24), ("op_logior", 25), ("op_logxor", 26), ("op_lognot", 27),
        ("op_point_add", 29), ("op_pubkey_for_exp", 30), ("op_not", 32), ("op_any", 33), ("op_all", 34),
        ("op_g1_subtract", 49), ("op_g1_multiply", 50), ("op_g1_negate", 51), ("op_g2_add", 52), ("op_g2_subtract", 53),
        ("op_g2_multiply", 54), ("op_g2_negate", 55), ("op_g1_map", 56), ("op_g2_map", 57),
        ("op_bls_pairing_identity", 58), ("op_bls_verify", 59), ("op_modpow", 60), ("op_mod", 61),
    ]
}
pub fn runtime(flags: ClvmFlags) -> RuntimeDialect {
    let map: HashMap<String, Vec<u8>> = standard_table().into_iter().map(|(n, c)| (n.to_string(), vec![c])).collect();
    RuntimeDialect::new(map, vec![1], vec![2], flags)
}

/// does the program mention an opcode atom outside the common domain? (syntactic, conservative:
/// any atom equal to 36, 48, 62..65 or a 4-byte secp opcode anywhere excludes the program)
fn in_scope(t: &T) -> bool {
    match t {
        T::A(b) => {
            let b = &b[..];
            !(b == [36] || b == [48] || b == [62] || b == [63] || b == [64] || b == [65] || b == [0x13, 0xd6, 0x1f, 0x00] || b == [0x1c, 0x3a, 0x8f, 0x00])
        }
        T::P(l, r) => in_scope(l) && in_scope(r),
    }
}

fn check_case(prog: &T, env: &T, flags: ClvmFlags, acc: &mut Acc, space: &str) {
    if !in_scope(prog) || !in_scope(env) {
        acc.inc("out_of_scope");
        return;
    }
    with_loaded(prog, env, Enc::Inline, |l| {
        let chia = ChiaDialect::new(flags & !(ClvmFlags::ENABLE_GC | ClvmFlags::DISABLE_OP));
        let rt = runtime(flags);
        let c0 = l.run(&chia, 0);
        let r0 = l.run(&rt, 0);
        acc.add("runs", 2);
        let canon = |b: u64| format!("prog={} env={} flags={:#x} budget={b}", prog.hex(), env.hex(), flags.bits());
        let cmp = |c: &Outcome, r: &Outcome| -> Option<String> {
            if c.panicked || r.panicked {
                return Some(format!("panic: chia {} runtime {}", c.brief(), r.brief()));
            }
            if c.ok != r.ok || c.cost != r.cost || c.digest != r.digest || c.err != r.err {
                return Some(format!("ChiaDialect {} but RuntimeDialect {}", c.brief(), r.brief()));
            }
            None
        };
        if let Some(m) = cmp(&c0, &r0) {
            acc.violation(canon(0), format!("[{space}] {m}"));
            return;
        }
        if c0.ok {
            acc.inc("both_succeed");
            for b in [c0.cost, c0.cost.saturating_sub(1)] {
                if b == 0 {
                    continue;
                }
                let c = l.run(&chia, b);
                let r = l.run(&rt, b);
                acc.add("runs", 2);
                if let Some(m) = cmp(&c, &r) {
                    acc.violation(canon(b), format!("[{space}] {m}"));
                }
            }
            acc.outcome((c0.digest as u64) ^ c0.cost);
        } else {
            acc.inc("both_fail_same_error");
        }
    });
}

/// start from a non-initial process state: dialects with NON-standard tables are built and used before (and, at the
/// end, after) the standard-table comparison; each must honour its own table, and none may leak into the others
fn custom_table_probe(acc: &mut Acc, when: &str) {
    use crate::tree::{atom, list, nil, quote};
    // table A: only op_add -> 17 and op_sha256 -> 3 ; table B: op_add -> 40, op_subtract -> 16
    let tabs: Vec<(&str, Vec<(&str, u8)>)> = vec![("A", vec![("op_add", 17), ("op_sha256", 3)]), ("B", vec![("op_add", 40), ("op_subtract", 16)])];
    for (tn, tab) in tabs {
        let map: HashMap<String, Vec<u8>> = tab.iter().map(|(n, c)| (n.to_string(), vec![*c])).collect();
        let d = RuntimeDialect::new(map, vec![1], vec![2], ClvmFlags::empty());
        for (code, expect) in [(17u8, if tn == "A" { Some(5i128) } else { None }), (40, if tn == "B" { Some(5) } else { None }), (16, if tn == "B" { Some(1) } else { None })] {
            let p = list(&[atom(&[code]), quote(atom(&[3])), quote(atom(&[2]))]);
            let o = with_loaded(&p, &nil(), Enc::Inline, |l| l.run(&d, 0));
            acc.add("runs", 1);
            acc.inc("custom_table_probes");
            let want = expect.map(|v| t_digest(&crate::tree::int_atom(v)));
            let ok = match want {
                Some(dg) => o.ok && o.digest == dg,
                None => !o.ok || o.digest == t_digest(&nil()), // unknown operator: nil (or an error), never an arithmetic result
            };
            if !ok {
                acc.violation(format!("custom table {tn} ({when} the standard-table runs): opcode {code} on (3 2)"), format!("got {} — the dialect does not honour its own table", o.brief()));
            }
        }
    }
}

pub fn run(ctx: &Ctx) -> Report {
    let mut rep = Report::new("C30", "exploration");
    {
        let mut acc = Acc::default();
        custom_table_probe(&mut acc, "before");
        rep.absorb(acc);
    }
    let mut flagsets = vec![];
    for m in [ClvmFlags::empty(), ClvmFlags::NEW_COST_MODEL, ClvmFlags::MALACHITE, ClvmFlags::NEW_COST_MODEL | ClvmFlags::MALACHITE] {
        for r in [ClvmFlags::empty(), ClvmFlags::NO_UNKNOWN_OPS, ClvmFlags::CANONICAL_INTS, ClvmFlags::LIMITS, ClvmFlags::ENABLE_GC | ClvmFlags::DISABLE_OP] {
            flagsets.push(m | r);
        }
    }
    if ctx.quick() {
        flagsets = vec![flagsets[0], flagsets[1], flagsets[6], flagsets[12], flagsets[3], flagsets[8], flagsets[9], flagsets[19]];
    }
    let mut ops: Vec<Vec<u8>> = standard_table().iter().map(|(_, c)| vec![*c]).collect();
    ops.extend([vec![15u8], vec![28], vec![31], vec![35], vec![66], vec![0x7f], vec![0x80], vec![0x00], vec![0xff]]);
    ops.extend(multibyte_ops().into_iter().filter(|o| o.len() != 4 || (o[0] != 0x13 && o[0] != 0x1c)));
    let spaces: Vec<ProgSpace> = vec![
        p1("P1", ops.clone(), ctx.pick(a6(), a12()), vec![vec![2u8], vec![5], vec![11]], ctx.pick(2, 3)),
        p1b(ops.clone(), 2),
        p2(classic_ops(), ctx.pick(vec![vec![1], vec![0x80]], a6())),
        p3(ctx.pick(4, 5), 2),
        p4(ctx.pick(16, 80), false),
        p_vectors(ctx.pick(2, 8)),
        p_raw(ops, a6()),
    ];
    let seed = ctx.seed;
    let mut notes = vec![];
    for sp in &spaces {
        let t_space = std::time::Instant::now();
        let nf = flagsets.len() as u64;
        let acc = par_for(ctx, sp.total * nf, 64, |i| { let (p, e) = sp.at(i / nf); format!("prog={} env={} flags={:#x}", p.hex(), e.hex(), flagsets[(i % nf) as usize].bits()) }, |i, acc| {
            let (p, e) = sp.at(i / nf);
            check_case(&p, &e, flagsets[(i % nf) as usize], acc, &sp.name);
            acc.inc("cases");
            acc.maybe_sample(sample_key(seed, i ^ fnv(sp.name.as_bytes())), || json!({"space": sp.name, "prog": p.hex(), "flags": format!("{:#x}", flagsets[(i % nf) as usize].bits())}));
        });
        notes.push(json!({"space": sp.name, "wall_s": t_space.elapsed().as_secs_f64(), "programs": sp.total, "flag_sets": nf}));
        rep.absorb(acc);
    }
    {
        let mut acc = Acc::default();
        custom_table_probe(&mut acc, "after");
        rep.absorb(acc);
    }
    rep.note("spaces", json!(notes));
    rep.note("standard_table", json!(standard_table()));
    rep.evaluations = rep.acc.get("runs");
    rep.nontrivial = rep.acc.get("both_succeed");
    rep.states = rep.acc.get("cases") - rep.acc.get("out_of_scope");
    rep.transitions = rep.acc.get("runs");
    rep.traces = rep.states;
    rep.rule = format!("the standard table = every opcode -> op_* assignment of ChiaDialect::op whose function name f_table::opcode_by_name knows ({} operators; 48 and 62-65 have no name), quote 1, apply 2. Every program of P1 (table opcodes + opcodes unknown to both), P1b, P2, P3, P4, PV, RAW that does not mention 36, 48, 62-65 or a 4-byte secp opcode x {} flag sets is run on RuntimeDialect(flags) and ChiaDialect(flags minus ENABLE_GC and DISABLE_OP) under budgets 0, C, C-1; oracle: same result, cost and error string. Non-trivial = programs that succeed on both.", standard_table().len(), flagsets.len());
    rep.assumptions.push("the repository ships no literal 'standard operator-name table'; it is reconstructed as stated and cross-checked by hand against wheel/python/clvm_rs/chia_dialect.py KEYWORDS for opcodes 3..34".into());
    rep
}
