// C10 — operator costs follow the documented cost models.
use crate::common::*;
use crate::domains::*;
use crate::opspace::*;
use crate::progspace::*;
use crate::refcost::{self, ref_cost};
use crate::tree::{Builder, ENCS, Enc, Sharing, T, TreeSpace, atom, cons, int_atom, list, nil, quote};
use clvmr::chia_dialect::ClvmFlags;
use serde_json::json;

const CEILING: u64 = 1 << 40;

fn enables() -> ClvmFlags {
    ClvmFlags::ENABLE_KECCAK_OPS_OUTSIDE_GUARD | ClvmFlags::ENABLE_SHA256_TREE | ClvmFlags::ENABLE_SECP_OPS
}

fn check(op: u8, args: &T, encs: &[Enc], in_program: bool, acc: &mut Acc) {
    for new in [false, true] {
        // the cost model is only defined for well-formed argument lists (anything else must fail)
        let exp = std::panic::catch_unwind(std::panic::AssertUnwindSafe(|| ref_cost(op, args, new))).unwrap_or(None);
        for mal in [false, true] {
            if mal && ![19u8, 20, 60, 61].contains(&op) {
                continue;
            }
            let mut flags = enables();
            if new {
                flags |= ClvmFlags::NEW_COST_MODEL;
            }
            if mal {
                flags |= ClvmFlags::MALACHITE;
            }
            for enc in encs {
                let o = with_op(&[op], args, *enc, |a, o, n| call_op(a, o, n, flags, CEILING));
                acc.inc("calls");
                let canon = || format!("op={op} args={} new_cost_model={new} malachite={mal} enc={enc:?}", if args.ser_len() <= 300 { args.hex() } else { format!("({} bytes, fnv {:016x})", args.ser_len(), fnv(&args.ser())) });
                if o.panicked {
                    acc.violation(canon(), format!("panic: {}", o.err));
                    continue;
                }
                if o.ok {
                    acc.inc("successes");
                    acc.outcome(((op as u64) << 1) | new as u64);
                    match exp {
                        Some(c) if c == o.cost as u128 => acc.inc("cost_matches"),
                        Some(c) => acc.violation(canon(), format!("operator charged {} but the documented formula gives {c}", o.cost)),
                        None => acc.violation(canon(), format!("operator succeeded with cost {} where the cost model defines none", o.cost)),
                    }
                }
            }
            // inside run_program: (op (q . a1) ... (q . an)) costs 1 + 20 n + operator cost
            if in_program {
                let mut items = vec![];
                let mut cur = args.clone();
                while let T::P(a, b) = &cur {
                    items.push(quote((**a).clone()));
                    let n = (**b).clone();
                    cur = n;
                }
                if matches!(cur, T::A(ref b) if b.is_empty()) {
                    let prog = cons(atom(&[op]), list(&items));
                    let o = with_loaded(&prog, &nil(), Enc::Inline, |l| l.run_flags(flags, CEILING));
                    acc.inc("calls");
                    if o.ok {
                        if let Some(c) = exp {
                            let want = c + 1 + 20 * items.len() as u128;
                            if o.cost as u128 != want {
                                acc.violation(format!("run_program op={op} args={} new_cost_model={new} malachite={mal}", args.hex()), format!("run_program charged {} but 1 + 20*{} + formula = {want}", o.cost, items.len()));
                            } else {
                                acc.inc("cost_matches_in_program");
                            }
                        }
                    }
                }
            }
        }
    }
}

pub fn run(ctx: &Ctx) -> Report {
    let mut rep = Report::new("C10", "model_checking");
    let mut errs = vec![];
    let nvec = refcost::validate(&mut errs);
    rep.note("refcost_vectors_replayed", json!(nvec));
    for e in errs.iter().take(20) {
        rep.machinery(e.clone());
    }
    if !errs.is_empty() {
        return rep;
    }
    let seed = ctx.seed;
    // 1. generic operators over integer / byte alphabets
    let alpha = ints(!ctx.quick());
    let alpha_ser: Vec<Vec<u8>> = alpha.iter().map(|t| t.ser()).collect();
    let generic: Vec<(u8, usize)> = vec![(3, 3), (4, 2), (5, 1), (6, 1), (7, 1), (9, 2), (10, 2), (11, 3), (12, 3), (13, 1), (14, 3), (16, 3), (17, 3), (18, 3), (19, 2), (20, 2), (21, 2), (22, 2), (23, 2), (24, 3), (25, 3), (26, 3), (27, 1), (30, 1), (32, 1), (33, 3), (34, 3), (60, 3), (61, 2), (62, 3)];
    let k = alpha.len() as u64;
    let mut offs = vec![0u64];
    for (_, ar) in &generic {
        let ar = if ctx.quick() { (*ar).min(2) } else { *ar };
        offs.push(offs.last().unwrap() + arg_lists_total(k, ar));
    }
    let total = *offs.last().unwrap();
    let quick = ctx.quick();
    let acc = par_for(ctx, total, 32, |i| format!("generic#{i}"), |i, acc| {
        let alpha: Vec<T> = alpha_ser.iter().map(|b| crate::tree::deser(b).unwrap().0).collect();
        let mut gi = 0;
        while offs[gi + 1] <= i {
            gi += 1;
        }
        let (op, ar) = generic[gi];
        let ar = if quick { ar.min(2) } else { ar };
        let args = nth_arg_list(&alpha, ar, i - offs[gi]);
        // modpow run-time guard: exponent <= 33 bytes
        if op == 60 {
            if let T::P(_, r) = &args {
                if let T::P(e, _) = &**r {
                    if e.bytes().map(|b| b.len() > 33).unwrap_or(false) {
                        return;
                    }
                }
            }
        }
        check(op, &args, if i % 4 == 0 { &ENCS } else { &ENCS[..1] }, i % 8 == 0, acc);
        acc.inc("arg_lists");
        acc.maybe_sample(sample_key(seed, i), || json!({"op": op, "args": if args.ser_len() < 200 { args.hex() } else { "(large)".into() }}));
    });
    rep.absorb(acc);
    // 2. variadic operators with longer lists that grow and shrink the accumulator
    let mut acc = Acc::default();
    let seqs: Vec<Vec<i128>> = vec![
        vec![1 << 100, 1, 1, 1], vec![1, 1 << 100, 1], vec![1 << 100, -(1 << 100), 5, 5], vec![-1, 30000, 30000, -1], vec![1000, -1], vec![65536, 0, 1], vec![70000, -3, -3, -3],
        vec![255, 1], vec![256, -1, -1], vec![i64::MAX as i128, 1, 1], vec![-(1 << 63), -1, 1 << 63], vec![0, 0, 0, 0, 0, 0, 0, 0], vec![1, 2, 3, 4, 5, 6, 7, 8], vec![(1 << 26) - 1, 1, -(1 << 26)],
    ];
    for op in [16u8, 17, 18, 24, 25, 26, 11, 14, 33, 34, 62] {
        for s in &seqs {
            let args = list(&s.iter().map(|v| int_atom(*v)).collect::<Vec<_>>());
            check(op, &args, &ENCS, true, &mut acc);
            // with leading-zero padded first operand
            let mut items: Vec<T> = s.iter().map(|v| int_atom(*v)).collect();
            let mut b = vec![0u8, 0u8];
            b.extend(crate::tree::int_bytes(s[0].abs()));
            items[0] = atom(&b);
            check(op, &list(&items), &ENCS[..1], false, &mut acc);
            acc.add("arg_lists", 2);
        }
    }
    rep.absorb(acc);
    // 3. operators that need valid points / signatures: the repository's vectors, plus constructed argument lists
    let pv = p_vectors(ctx.pick(4, 40));
    let acc = par_for(ctx, pv.total, 4, |i| format!("vector#{i}"), |i, acc| {
        let (p, _) = pv.at(i);
        // un-quote the call
        if let T::P(op, qargs) = &p {
            if let Some(ob) = op.bytes() {
                if ob.len() == 1 {
                    let mut items = vec![];
                    let mut cur = (**qargs).clone();
                    while let T::P(a, b) = &cur {
                        if let T::P(_, v) = &**a {
                            items.push((**v).clone());
                        }
                        let n = (**b).clone();
                        cur = n;
                    }
                    check(ob[0], &list(&items), &ENCS[..1], true, acc);
                    acc.inc("arg_lists");
                }
            }
        }
    });
    rep.absorb(acc);
    let mut acc = Acc::default();
    {
        let g1 = atom(&g1_gen());
        let g2 = atom(&g2_gen());
        for n in 0..=4usize {
            check(29, &list(&vec![g1.clone(); n]), &ENCS[..1], true, &mut acc);
            check(49, &list(&vec![g1.clone(); n]), &ENCS[..1], true, &mut acc);
            check(52, &list(&vec![g2.clone(); n]), &ENCS[..1], true, &mut acc);
            check(53, &list(&vec![g2.clone(); n]), &ENCS[..1], true, &mut acc);
            acc.add("arg_lists", 4);
        }
        for scalar in [vec![], vec![1], vec![0x00, 0xff], vec![0xff; 33], big_atom(300), big_atom(1100)] {
            check(50, &list(&[g1.clone(), atom(&scalar)]), &ENCS[..1], true, &mut acc);
            check(54, &list(&[g2.clone(), atom(&scalar)]), &ENCS[..1], true, &mut acc);
            check(30, &list(&[atom(&scalar)]), &ENCS[..1], true, &mut acc);
            acc.add("arg_lists", 3);
        }
        check(51, &list(&[g1.clone()]), &ENCS, true, &mut acc);
        check(55, &list(&[g2.clone()]), &ENCS, true, &mut acc);
        for msg in [vec![], vec![1], vec![0x61; 32], vec![0x62; 200]] {
            for dst in [None, Some(vec![]), Some(vec![0x44; 10]), Some(vec![0x45; 100])] {
                let mut a = vec![atom(&msg)];
                if let Some(d) = &dst {
                    a.push(atom(d));
                }
                check(56, &list(&a), &ENCS[..1], true, &mut acc);
                check(57, &list(&a), &ENCS[..1], true, &mut acc);
                acc.add("arg_lists", 2);
            }
        }
        // coinid over amounts
        for amount in [vec![], vec![1], vec![0x7f], vec![0x00, 0x80], vec![0x00, 0xff, 0xff, 0xff, 0xff, 0xff, 0xff, 0xff, 0xff]] {
            check(48, &list(&[atom(&[0x11; 32]), atom(&[0x22; 32]), atom(&amount)]), &ENCS, true, &mut acc);
            acc.inc("arg_lists");
        }
        let mut inf = vec![0u8; 96];
        inf[0] = 0xc0;
        check(59, &list(&[atom(&inf)]), &ENCS[..1], true, &mut acc);
        check(58, &nil(), &ENCS[..1], true, &mut acc);
    }
    rep.absorb(acc);
    // 4. sha256tree: every small tree, fresh and hash-consed, doubling to 2^16|2^20 expanded leaves, big atoms
    let ts = TreeSpace::new(ctx.pick(5, 6), &atoms_t(&a4()));
    let acc = par_for(ctx, ts.total, 64, |i| format!("sha256tree tree#{i}"), |i, acc| {
        let t = ts.get(i);
        check(63, &list(&[t.clone()]), &ENCS[..1], i % 16 == 0, acc);
        // shared sub-trees must be charged as if expanded
        for sh in [Sharing::HashCons, Sharing::Atoms] {
            for new in [false, true] {
                let mut a = fresh_allocator(u32::MAX as usize);
                let n = Builder::new(sh, Enc::Inline).build(&mut a, &t);
                let args = a.new_pair(n, clvmr::allocator::NodePtr::NIL).unwrap();
                let o = a.new_atom(&[63]).unwrap();
                let flags = enables() | if new { ClvmFlags::NEW_COST_MODEL } else { ClvmFlags::empty() };
                let r = call_op(&mut a, o, args, flags, CEILING);
                acc.inc("calls");
                let want = ref_cost(63, &list(&[t.clone()]), new).unwrap();
                if !r.ok || r.cost as u128 != want {
                    acc.violation(format!("sha256tree tree={} sharing={sh:?} new_cost_model={new}", t.hex()), format!("charged {} but base + per-pair + per-byte over the fully expanded tree = {want}", r.brief()));
                } else {
                    acc.inc("cost_matches");
                }
            }
        }
        acc.inc("arg_lists");
    });
    rep.absorb(acc);
    let mut acc = Acc::default();
    {
        let mut t = cons(atom(b"leaf-a"), atom(&[0x80; 33]));
        for d in 1..=ctx.pick(15, 19) {
            t = cons(t.clone(), t);
            for new in [false, true] {
                let mut a = fresh_allocator(u32::MAX as usize);
                let n = Builder::new(Sharing::HashCons, Enc::Inline).build(&mut a, &t);
                let args = a.new_pair(n, clvmr::allocator::NodePtr::NIL).unwrap();
                let o = a.new_atom(&[63]).unwrap();
                let flags = enables() | if new { ClvmFlags::NEW_COST_MODEL } else { ClvmFlags::empty() };
                let r = call_op(&mut a, o, args, flags, u64::MAX);
                // expanded size: 2^d copies of the seed pair
                let cpb: u128 = if new { 6 } else { 2 };
                let leaves = 1u128 << d;
                let want = 270 + 460 * (leaves * 2 - 1) + cpb * leaves * ((6 + 1) + (33 + 1)) + 320;
                acc.inc("calls");
                acc.inc("arg_lists");
                if !r.ok || r.cost as u128 != want {
                    acc.violation(format!("sha256tree doubling depth={d} new_cost_model={new}"), format!("charged {} expected {want}", r.brief()));
                } else {
                    acc.inc("cost_matches");
                }
            }
        }
        for sz in big_sizes().into_iter().chain([8191usize, 8192, (1 << 20) - 1, 1 << 20]) {
            check(63, &list(&[atom(&vec![0x5a; sz])]), &ENCS[..1], false, &mut acc);
            check(11, &list(&[atom(&vec![0x5a; sz]), atom(&[1])]), &ENCS[..1], false, &mut acc);
            check(14, &list(&[atom(&vec![0x5a; sz]), atom(&vec![0x5b; sz])]), &ENCS[..1], false, &mut acc);
            check(13, &list(&[atom(&vec![0x5a; sz])]), &ENCS[..1], false, &mut acc);
            check(16, &list(&[atom(&vec![0x5a; sz]), atom(&[1])]), &ENCS[..1], false, &mut acc);
            acc.add("arg_lists", 5);
        }
    }
    rep.absorb(acc);
    let nops = rep.acc.outcomes.len();
    rep.note("distinct_(operator,cost_model)_pairs_with_a_compared_success", json!(nops));
    rep.evaluations = rep.acc.get("calls");
    rep.nontrivial = rep.acc.get("cost_matches") + rep.acc.get("cost_matches_in_program");
    rep.states = rep.acc.get("arg_lists");
    rep.transitions = rep.acc.get("calls");
    rep.traces = rep.acc.get("successes");
    rep.rule = format!("30 generic operators with EVERY argument list of arity 0..=2|arity over a {}-value integer/byte alphabet (boundary values, padded forms, 257..2100-byte operands, a pair), long operand sequences that grow and shrink the accumulator, the repository's vectors for the BLS / secp / keccak operators plus constructed point lists, scalars up to 1100 bytes, messages and DSTs, coinid amounts, and sha256tree on every tree of TREES(5|6,A4) in fresh / hash-consed / atom-shared form, doubling to 2^15|2^19 shared leaves and atoms up to 1 MiB; each under both cost models (and with MALACHITE for the division family), in up to 3 atom representations, called through ChiaDialect::op and, for a subset, inside run_program (1 + 20n + formula). Oracle: on success Reduction.0 equals RefCost. Non-trivial = successful calls whose cost was compared.", alpha.len());
    rep.trusted_base.push("harness/src/refcost.rs: formulas from docs/cost-model.md, docs/sha256tree.md and the operators' documentation comments, constants copied once; validated at start-up against every operator vector of op-tests (v1 and v2)".into());
    rep.note("documentation_note", json!("docs/cost-model.md describes a same-sign shortcut for logand/logior/logxor and limb-based argument sizes for + and -; the in-source comments and the v2 vectors use max(atom_len, accumulator limbs) for every argument. RefCost follows the vectors; the disagreement is a documentation issue, not counted as a violation."));
    rep
}
