// Loader for the repository's op-tests/*.txt vectors ("op args => result | cost" / "=> FAIL").
use crate::progspace::OPNAMES;
use crate::tree::{T, parse_sexp};

pub struct Vector {
    pub line: String,
    pub opname: String,
    pub op: Vec<u8>,
    pub args: T,
    pub expect: Option<(T, u64)>,
}

pub fn op_by_name(n: &str) -> Option<Vec<u8>> {
    for (name, c) in OPNAMES {
        if *name == n {
            return Some(vec![*c]);
        }
    }
    Some(match n {
        "g1_add" => vec![29],
        "unknown" => vec![0x00],
        "unknown_add" => vec![0x40],
        "unknown_mul" => vec![0x80],
        "unknown_concat" => vec![0xc0],
        "unknown_x2" => vec![0x01, 0x00],
        "unknown_add_x2" => vec![0x01, 0x40],
        "unknown_mul_x2" => vec![0x01, 0x80],
        "unknown_concat_x2" => vec![0x01, 0xc0],
        "secp256k1_verify_64" => vec![64],
        "secp256r1_verify_65" => vec![65],
        "secp256k1_verify" => vec![0x13, 0xd6, 0x1f, 0x00],
        "secp256r1_verify" => vec![0x1c, 0x3a, 0x8f, 0x00],
        _ => return None,
    })
}

pub fn load(file: &str) -> Vec<Vector> {
    let path = format!("/repo/op-tests/{file}");
    let text = std::fs::read_to_string(&path).unwrap_or_else(|e| panic!("cannot read {path}: {e}"));
    let mut out = vec![];
    for line in text.lines() {
        let l = line.trim();
        if l.is_empty() || l.starts_with(';') {
            continue;
        }
        let Some((lhs, rhs)) = l.split_once("=>") else { continue };
        let lhs = lhs.trim();
        let (opname, args) = match lhs.split_once(char::is_whitespace) {
            Some((o, a)) => (o, a.trim()),
            None => (lhs, ""),
        };
        let Some(op) = op_by_name(opname) else { continue };
        let args_s = format!("( {args} )");
        let Ok(args) = std::panic::catch_unwind(|| parse_sexp(&args_s)) else { continue };
        let rhs = rhs.trim();
        let expect = if rhs.starts_with("FAIL") {
            None
        } else {
            let (res, cost) = rhs.rsplit_once('|').unwrap_or_else(|| panic!("bad vector line {l}"));
            Some((parse_sexp(res.trim()), cost.trim().parse::<u64>().unwrap_or_else(|_| panic!("bad cost in {l}"))))
        };
        out.push(Vector { line: l.to_string(), opname: opname.to_string(), op, args, expect });
    }
    out
}
