// C14 — nodes are immutable, integers canonically encoded.
use crate::common::*;
use crate::domains::*;
use crate::props::allocmc::*;
use crate::tree::int_bytes;
use clvmr::allocator::{Allocator, fits_in_small_atom};
use num_bigint::BigInt;
use serde_json::json;

fn ref_small(b: &[u8]) -> Option<u32> {
    if b.is_empty() {
        return Some(0);
    }
    if b.len() > 4 {
        return None;
    }
    let mut v: i128 = if b[0] & 0x80 != 0 { -1 } else { 0 };
    for x in b {
        v = (v << 8) | *x as i128;
    }
    if v < 0 || v >= (1 << 26) || int_bytes(v) != b {
        return None;
    }
    Some(v as u32)
}

fn check_bytes(a: &mut Allocator, b: &[u8], acc: &mut Acc) {
    let exp = ref_small(b);
    if fits_in_small_atom(b) != exp {
        acc.violation(format!("fits_in_small_atom {}", hx(b)), format!("{:?} expected {:?}", fits_in_small_atom(b), exp));
    }
    let cp = a.checkpoint();
    let n = a.new_atom(b).unwrap();
    if a.small_number(n) != exp {
        acc.violation(format!("small_number(new_atom {})", hx(b)), format!("{:?} expected {:?}", a.small_number(n), exp));
    }
    if a.atom(n).as_ref() != b || a.atom_len(n) != b.len() {
        acc.violation(format!("atom(new_atom {})", hx(b)), "bytes read back differ".into());
    }
    // heap representation of the same bytes must have the same small-integer view
    if !b.is_empty() {
        let nil = a.nil();
        let h = a.new_concat(b.len(), &[nil, n, nil]).unwrap();
        if a.small_number(h) != exp {
            acc.violation(format!("small_number(heap {})", hx(b)), format!("{:?} expected {:?}", a.small_number(h), exp));
        }
        if !a.atom_eq(h, n) {
            acc.violation(format!("atom_eq(heap, inline) {}", hx(b)), "false".into());
        }
    }
    if exp.is_some() {
        acc.inc("small_views");
    }
    a.restore_checkpoint(&cp);
    acc.inc("byte_strings");
}

fn check_int(a: &mut Allocator, v: i128, acc: &mut Acc) {
    let exp = int_bytes(v);
    let cp = a.checkpoint();
    let big = BigInt::from(v);
    let n = a.new_number(big.clone()).unwrap();
    if a.atom(n).as_ref() != &exp[..] {
        acc.violation(format!("new_number {v}"), format!("{} expected {}", hx(a.atom(n).as_ref()), hx(&exp)));
    }
    if a.number(n) != big {
        acc.violation(format!("number(new_number {v})"), "value read back differs".into());
    }
    let mv = malachite_bigint::BigInt::from(v);
    let m = a.new_malachite_number(mv.clone()).unwrap();
    if a.atom(m).as_ref() != &exp[..] {
        acc.violation(format!("new_malachite_number {v}"), format!("{} expected {}", hx(a.atom(m).as_ref()), hx(&exp)));
    }
    if a.malachite_number(m) != mv {
        acc.violation(format!("malachite_number(new_malachite_number {v})"), "value read back differs".into());
    }
    if v >= 0 && v <= u64::MAX as i128 {
        let u = a.new_u64(v as u64).unwrap();
        if a.atom(u).as_ref() != &exp[..] {
            acc.violation(format!("new_u64 {v}"), format!("{} expected {}", hx(a.atom(u).as_ref()), hx(&exp)));
        }
        if a.number(u) != big {
            acc.violation(format!("number(new_u64 {v})"), "value read back differs".into());
        }
    }
    if v >= i64::MIN as i128 && v <= i64::MAX as i128 {
        let u = a.new_i64(v as i64).unwrap();
        if a.atom(u).as_ref() != &exp[..] {
            acc.violation(format!("new_i64 {v}"), format!("{} expected {}", hx(a.atom(u).as_ref()), hx(&exp)));
        }
        if a.number(u) != big {
            acc.violation(format!("number(new_i64 {v})"), "value read back differs".into());
        }
    }
    if v >= 0 && v < (1 << 26) {
        let s = a.new_small_number(v as u32).unwrap();
        if a.atom(s).as_ref() != &exp[..] || a.small_number(s) != Some(v as u32) {
            acc.violation(format!("new_small_number {v}"), "bytes / small view differ".into());
        }
    }
    a.restore_checkpoint(&cp);
    acc.inc("integers");
}

pub fn run(ctx: &Ctx) -> Report {
    let mut rep = Report::new("C14", "model_checking");
    // (a) BFS with the immutability oracle (the same engine as C12; depth chosen so it stays cheap here)
    // every worker builds its own start state: the harness must not require `Allocator: Sync` or `Send` (a change that
    // adds interior mutability to the allocator would otherwise break the harness build instead of being judged)
    let (al, depth) = if ctx.quick() { (Alphabet::thin(), 4) } else { (Alphabet::full(), 4) };
    let r = bfs(ctx, || St::new(Allocator::new(), u32::MAX as usize), "new()", &al, depth, Modes::default(), 40_000_000);
    rep.states = r.states;
    rep.transitions = r.transitions;
    rep.note("bfs", json!({"depth": depth, "states": r.states, "transitions": r.transitions}));
    // C12's accounting divergences are C12's subject: keep only content violations here
    let mut acc = r.acc;
    let before = acc.violations.len();
    acc.violations.retain(|v| v.detail.contains("handle changed") || v.detail.contains("atom_len") || v.detail.contains("small_number") || v.detail.contains("number()") || v.detail.contains("children changed") || v.detail.contains("node kind") || v.detail.contains("atom_eq") || v.canon.starts_with("PANIC"));
    acc.violation_count = acc.violations.len() as u64;
    rep.note("accounting_divergences_left_to_C12", json!(before - acc.violations.len()));
    rep.absorb(acc);
    // (b) pure functions: every byte string of BYTES(3); 4-byte strings; longer over a small alphabet
    let all = all_bytes();
    let n1 = count_bytes_upto(256, 3);
    let acc = par_for(ctx, n1, 1 << 12, |i| format!("BYTES3#{i}"), |i, acc| {
        thread_local! { static A: std::cell::RefCell<Allocator> = std::cell::RefCell::new(Allocator::new()); }
        let mut s = Vec::new();
        nth_bytes_upto(&all, 3, i, &mut s);
        A.with(|a| check_bytes(&mut a.borrow_mut(), &s, acc));
    });
    rep.absorb(acc);
    // quick: 8 boundary first bytes x a 2^12 lattice of tails; thorough: ALL 2^32 four-byte strings
    let firsts: Vec<u8> = if ctx.quick() { vec![0x00, 0x01, 0x02, 0x03, 0x04, 0x7f, 0x80, 0xff] } else { (0..=255u8).collect() };
    let tail_bits = ctx.pick(12u32, 24);
    let n2 = (firsts.len() as u64) << tail_bits;
    let acc = par_for(ctx, n2, 1 << 12, |i| format!("BYTES4#{i}"), |i, acc| {
        thread_local! { static A: std::cell::RefCell<Allocator> = std::cell::RefCell::new(Allocator::new()); }
        let f = firsts[(i >> tail_bits) as usize];
        let t = i & ((1 << tail_bits) - 1);
        // quick: 12-bit lattice spread over the 24 tail bits (4 bits per byte: values 0x00,0x11,..)
        let tail: u32 = if tail_bits == 24 { t as u32 } else {
            let nib = |k: u32| -> u32 { [0x00u32, 0x01, 0x7f, 0x80, 0x81, 0xfe, 0xff, 0x40, 0x3f, 0xc0, 0x10, 0x0f, 0xf0, 0x7e, 0x02, 0xbf][((t >> (4 * k)) & 15) as usize] };
            (nib(2) << 16) | (nib(1) << 8) | nib(0)
        };
        let s = [f, (tail >> 16) as u8, (tail >> 8) as u8, tail as u8];
        A.with(|a| check_bytes(&mut a.borrow_mut(), &s, acc));
    });
    rep.absorb(acc);
    let alpha5 = [0x00u8, 0x01, 0x7f, 0x80, 0xff];
    let n3 = count_bytes_upto(5, 6);
    let acc = par_for(ctx, n3, 1 << 10, |i| format!("A5^6#{i}"), |i, acc| {
        thread_local! { static A: std::cell::RefCell<Allocator> = std::cell::RefCell::new(Allocator::new()); }
        let mut s = Vec::new();
        nth_bytes_upto(&alpha5, 6, i, &mut s);
        A.with(|a| check_bytes(&mut a.borrow_mut(), &s, acc));
    });
    rep.absorb(acc);
    // integers
    let ib: i128 = ctx.pick(1 << 14, 1 << 17);
    let acc = par_for(ctx, (2 * ib + 1) as u64, 1 << 10, |i| format!("int {}", i as i128 - ib), |i, acc| {
        thread_local! { static A: std::cell::RefCell<Allocator> = std::cell::RefCell::new(Allocator::new()); }
        A.with(|a| check_int(&mut a.borrow_mut(), i as i128 - ib, acc));
    });
    rep.absorb(acc);
    let mut acc = Acc::default();
    let mut a = Allocator::new();
    for k in 0..=120u32 {
        for d in -2i128..=2 {
            for s in [1i128, -1] {
                check_int(&mut a, s * (1i128 << k) + d, &mut acc);
            }
        }
    }
    rep.absorb(acc);
    // (d) substring windows, in range and out of range, of a parent at several heap positions, followed by the
    //     history "checkpoint, allocate X, restore, allocate Y": whatever node the call hands out must keep the
    //     bytes it had when it was created (an out-of-range window may be rejected, but an accepted one must not
    //     alias bytes that later allocations overwrite)
    {
        let mut acc = Acc::default();
        let pres: Vec<Vec<Vec<u8>>> = vec![vec![], vec![vec![0x50; 5]], vec![vec![0x50; 5], vec![0x51; 1100]]];
        let parents: Vec<Vec<u8>> = vec![vec![0x80], vec![0xff, 0xff], vec![9, 8, 7, 6, 5], vec![0x81, 2, 3, 4, 5, 6, 7, 8, 9], vec![0x61; 40]];
        for pre in &pres {
            for parent in &parents {
                let len = parent.len() as u32;
                for s0 in 0..=len + 3 {
                    for e0 in s0..=len + 12 {
                        let canon = format!("allocations {:?} then parent {} then new_substr({s0},{e0}) ; checkpoint ; new_atom(16 x 58) ; restore ; new_atom(16 x 59)", pre.iter().map(|b| b.len()).collect::<Vec<_>>(), hx(parent));
                        guarded(&mut acc, &canon, |acc| {
                            let mut a = Allocator::new();
                            for b in pre {
                                a.new_atom(b).unwrap();
                            }
                            let p = a.new_atom(parent).unwrap();
                            acc.inc("substr_history_cases");
                            let Ok(n) = a.new_substr(p, s0, e0) else {
                                if e0 <= len {
                                    acc.violation(canon.clone(), "in-range substring rejected".into());
                                }
                                return;
                            };
                            let snap = a.atom(n).as_ref().to_vec();
                            if e0 <= len {
                                if snap != parent[s0 as usize..e0 as usize] {
                                    acc.violation(canon.clone(), format!("substring bytes {} != parent[{s0}..{e0}]", hx(&snap)));
                                }
                            } else {
                                acc.inc("out_of_range_window_accepted");
                            }
                            let cp = a.checkpoint();
                            a.new_atom(&[0x58; 16]).unwrap();
                            a.restore_checkpoint(&cp);
                            a.new_atom(&[0x59; 16]).unwrap();
                            let now = a.atom(n).as_ref().to_vec();
                            if now != snap || a.atom_len(n) != snap.len() {
                                acc.violation(canon.clone(), format!("node bytes changed from {} to {} after a later allocation", hx(&snap), hx(&now)));
                            }
                            if a.atom(p).as_ref() != &parent[..] {
                                acc.violation(canon.clone(), "parent bytes changed".into());
                            }
                        });
                    }
                }
            }
        }
        rep.absorb(acc);
    }
    rep.evaluations = rep.transitions + rep.acc.get("byte_strings") + rep.acc.get("integers") + rep.acc.get("substr_history_cases");
    rep.traces = rep.evaluations;
    rep.nontrivial = rep.states + rep.acc.get("small_views") + rep.acc.get("integers");
    let nfirst = firsts.len();
    rep.rule = format!("(a) the allocator BFS of C12 (depth {depth}) with the content oracle: after every transition every handle still valid per the model (including handles older than a restored checkpoint) reads back its recorded bytes/children through atom, atom_len, sexp, small_number, number, and atom_eq equals byte equality on every pair of live atoms; (b) fits_in_small_atom / small_number / new_atom for every byte string of BYTES(3), 4-byte strings ({nfirst} first bytes x 2^{tail_bits} tails; thorough = all 2^32), BYTES(6,{{00,01,7f,80,ff}}), in inline and heap representation, against an independent minimal-encoding oracle; new_number/new_malachite_number/new_u64/new_i64/new_small_number for every integer in [-{ib},{ib}] and +-2^k+-d (k<=120): bytes == independent minimal two's-complement encoding and read back equal. (d) every substring window (start <= len+3, end <= len+12) of 5 parents at 3 heap positions followed by checkpoint / allocate / restore / allocate: the node handed out keeps its bytes. Non-trivial = distinct BFS states + byte strings that have a small-integer view + integers.");
    rep
}
