// C04 — ENABLE_GC is unobservable.
use crate::common::*;
use crate::domains::*;
use crate::progspace::*;
use crate::tree::{Enc, T};
use clvmr::chia_dialect::{ClvmFlags, MEMPOOL_MODE};
use serde_json::json;

fn compare(a: &Outcome, b: &Outcome) -> Option<String> {
    if a.panicked || b.panicked {
        return Some(format!("panic: without GC {}, with GC {}", a.brief(), b.brief()));
    }
    if a.ok != b.ok || a.cost != b.cost || a.digest != b.digest || a.err != b.err {
        return Some(format!("outcome differs: without GC {}, with GC {}", a.brief(), b.brief()));
    }
    if a.counts != b.counts {
        return Some(format!("allocator counts (atoms,pairs,heap) differ: without GC {:?}, with GC {:?}", a.counts, b.counts));
    }
    None
}

fn check_case(ctx: &Ctx, prog: &T, env: &T, base: ClvmFlags, limit_sweep: bool, acc: &mut Acc, space: &str) {
    let canon = |b: u64, hl: usize| format!("prog={} env={} flags={:#x} budget={b} heap_limit={hl}", prog.hex(), env.hex(), base.bits());
    let unlimited = u32::MAX as usize;
    let (cost, need) = with_loaded(prog, env, Enc::Inline, |l| {
        clvmr::verif::set_cost_log(true);
        let off = l.run_flags(base, 0);
        let log = clvmr::verif::take_cost_log();
        clvmr::verif::set_cost_log(false);
        let on = l.run_flags(base | ClvmFlags::ENABLE_GC, 0);
        acc.add("runs", 2);
        if off.allocated != on.allocated {
            acc.inc("restore_happened");
        }
        if let Some(m) = compare(&off, &on) {
            acc.violation(canon(0, unlimited), format!("[{space}] {m}"));
            return (None, 0);
        }
        if !off.ok {
            return (None, off.counts.2);
        }
        let c = off.cost;
        // budgets: C, C-1 and up to 6 interior thresholds taken from the comparison log
        let mut budgets = vec![c, c.saturating_sub(1)];
        let mut th: Vec<u64> = log.iter().filter(|(cost, max)| max >= cost).map(|(cost, max)| u64::MAX - (max - cost)).filter(|t| *t < c && *t > 0).collect();
        th.sort();
        th.dedup();
        let step = (th.len() / 6).max(1);
        for t in th.iter().step_by(step) {
            budgets.push(*t);
            budgets.push(*t - 1);
        }
        budgets.retain(|b| *b > 0);
        budgets.sort();
        budgets.dedup();
        for b in budgets {
            let off = l.run_flags(base, b);
            let on = l.run_flags(base | ClvmFlags::ENABLE_GC, b);
            acc.add("runs", 2);
            if let Some(m) = compare(&off, &on) {
                acc.violation(canon(b, unlimited), format!("[{space}] {m}"));
                return (Some(c), off.counts.2);
            }
        }
        (Some(c), off.counts.2)
    });
    // heap-limit sweep around the program's need (the wheel's LIMIT_HEAP gives a limited allocator)
    if limit_sweep && cost.is_some() {
        for d in 0..=70usize {
            if ctx.over_time() {
                set_capped();
                acc.inc("heap_limit_sweeps_cut_by_wall_cap");
                return;
            }
            for hl in [need.saturating_sub(d), need + d] {
                if hl == 0 || (d == 0 && hl != need) {
                    continue;
                }
                let r = std::panic::catch_unwind(std::panic::AssertUnwindSafe(|| {
                    with_loaded_limit(prog, env, Enc::Inline, hl, |l| {
                        let off = l.run_flags(base, 0);
                        let on = l.run_flags(base | ClvmFlags::ENABLE_GC, 0);
                        (off, on)
                    })
                }));
                acc.add("runs", 2);
                acc.inc("heap_limit_runs");
                match r {
                    Ok((off, on)) => {
                        if let Some(m) = compare(&off, &on) {
                            acc.violation(canon(0, hl), format!("[{space}] {m}"));
                            return;
                        }
                        if off.hit_allocator_limit() {
                            acc.inc("heap_limit_failures_agree");
                        }
                    }
                    Err(_) => {
                        // the program does not even load under this limit
                        acc.inc("heap_limit_too_small_to_load");
                    }
                }
            }
        }
    }
}

pub fn run(ctx: &Ctx) -> Report {
    let mut rep = Report::new("C04", "exploration");
    let ops = { let mut o = all_single_byte_ops(); o.extend(multibyte_ops()); o };
    let spaces: Vec<(ProgSpace, bool)> = vec![
        (p_gc(), true),
        (p_gc_after(), true),
        (p4(ctx.pick(16, 24), false), true),
        (p5_full(), false),
        (p4(ctx.pick(16, 80), false), false),
        (p1("P1", ops, ctx.pick(vec![vec![], vec![1], vec![0x80]], a6()), vec![vec![2u8], vec![11]], 2), false),
        (p2(classic_ops(), vec![vec![1], vec![0x80]]), false),
        (p_vectors(ctx.pick(2, 8)), false),
    ];
    let bases: Vec<ClvmFlags> = if ctx.quick() {
        vec![ClvmFlags::empty(), ClvmFlags::NEW_COST_MODEL, MEMPOOL_MODE | ClvmFlags::LIMITS]
    } else {
        vec![ClvmFlags::empty(), ClvmFlags::NEW_COST_MODEL, ClvmFlags::LIMITS, MEMPOOL_MODE, MEMPOOL_MODE | ClvmFlags::NEW_COST_MODEL, ClvmFlags::MALACHITE | ClvmFlags::ENABLE_SHA256_TREE | ClvmFlags::ENABLE_KECCAK_OPS_OUTSIDE_GUARD | ClvmFlags::ENABLE_SECP_OPS]
    };
    let seed = ctx.seed;
    let mut notes = vec![];
    for (sp, sweep) in &spaces {
        let t_space = std::time::Instant::now();
        let nf = bases.len() as u64;
        let acc = par_for(ctx, sp.total * nf, 16, |i| { let (p, e) = sp.at(i / nf); format!("prog={} env={} flags={:#x}", p.hex(), e.hex(), bases[(i % nf) as usize].bits()) }, |i, acc| {
            let (p, e) = sp.at(i / nf);
            let f = bases[(i % nf) as usize];
            // the heap-limit sweep only under the first two base flag sets (cost model does not change allocation)
            check_case(ctx, &p, &e, f, *sweep && (i % nf) < 2, acc, &sp.name);
            acc.inc("cases");
            acc.maybe_sample(sample_key(seed, i ^ fnv(sp.name.as_bytes())), || json!({"space": sp.name, "prog": p.hex(), "env_bytes": e.ser().len(), "flags": format!("{:#x}", f.bits())}));
        });
        notes.push(json!({"space": sp.name, "wall_s": t_space.elapsed().as_secs_f64(), "programs": sp.total, "base_flag_sets": nf, "heap_limit_sweep": sweep}));
        rep.absorb(acc);
    }
    rep.note("spaces", json!(notes));
    if rep.acc.get("restore_happened") == 0 && rep.acc.violation_count == 0 {
        rep.machinery("no explored program triggered an allocator restore: the exploration would be vacuous".into());
    }
    rep.evaluations = rep.acc.get("runs");
    rep.nontrivial = rep.acc.get("restore_happened");
    rep.states = rep.acc.get("cases");
    rep.transitions = rep.acc.get("runs");
    rep.traces = rep.acc.get("cases");
    rep.rule = "every program of GC (all 34 GC-candidate operators over inner expressions that allocate >=1 KiB, return views into old bytes, views into new bytes, <=48 and >48 byte atoms, pairs), P4 (families, every n), P5 (guards in and around GC candidates), P1, P2 x base flag sets, run with and without ENABLE_GC under budget 0, C, C-1 and interior thresholds from the comparison log, and (GC, P4) under every allocator heap limit within 70 bytes of the program's need; oracle: identical result, cost, error string and atom/pair/heap counts. Non-trivial = cases where the allocated sizes differ between the two runs, i.e. a restore really happened.".into();
    rep
}
