// C13 — allocator limits are enforced exactly. (a) BFS from pre-loaded states.
use crate::common::*;
use crate::props::allocmc::*;
use clvmr::allocator::Allocator;
use serde_json::json;

pub fn run(ctx: &Ctx) -> Report {
    let mut rep = Report::new("C13", "model_checking");
    let modes = Modes { limits: true };
    let hmax = ctx.pick(6usize, 12);
    let kmax = ctx.pick(2usize, 4);
    let depth = ctx.pick(3usize, 4);
    let mut per = vec![];
    // start states are described, not shared: (description, heap limit or None, ghost atoms, ghost pairs); every worker
    // builds its own allocator (the harness must not require `Allocator: Sync` / `Send`)
    let mut inits: Vec<(String, Option<usize>, usize, usize)> = vec![];
    // heap limits
    for h in 1..=hmax {
        inits.push((format!("new_limited({h})"), Some(h), 0, 0));
    }
    // heap limits next to the sizes of the large alphabet atoms (49 and 1100 bytes, their concatenations) and the
    // pre-charged byte: the large-atom and concat paths then meet the cap from both sides
    let big: Vec<usize> = if ctx.quick() { vec![1101, 1102, 1105] } else { vec![49, 50, 51, 52, 99, 1100, 1101, 1102, 1105, 1150, 1151, 2201, 2202] };
    for h in &big {
        inits.push((format!("new_limited({h})"), Some(*h), 0, 0));
    }
    // atom / pair caps: pre-load with ghosts to distance k from the cap
    for k in 0..=kmax {
        inits.push((format!("new()+add_ghost_atom(MAX-2-{k})"), None, MAX_ATOMS - 2 - k, 0));
        inits.push((format!("new()+add_ghost_pair(MAX-{k})"), None, 0, MAX_PAIRS - k));
        // both caps and a heap limit at once
        inits.push((format!("new_limited({})+ghost atoms MAX-2-{k}+ghost pairs MAX-{k}", 3 + k), Some(3 + k), MAX_ATOMS - 2 - k, MAX_PAIRS - k));
    }
    // degenerate: heap limit 0 is exceeded by the pre-charged byte of `one` from construction
    {
        let a = Allocator::new_limited(0);
        if a.heap_size() > 0 {
            rep.acc.violation("new_limited(0) initial state".into(), format!("heap_size() = {} exceeds heap limit 0 at construction", a.heap_size()));
        }
    }
    let al = if ctx.quick() { Alphabet::thin() } else { Alphabet::full() };
    // start from non-initial states too: a limited allocator that already holds an old 1100-byte atom, an outstanding
    // transparent checkpoint and 1100 bytes of garbage after it — the value-preserving restore classes (old bytes,
    // new bytes, in-place) are then within the depth bound while the heap cap is 0..2200 bytes away
    {
        let thin = Alphabet::thin();
        let prefix = vec![Op::NewAtom(vec![0x62; 1100]), Op::NewAtom(vec![0x00, 0x80]), Op::TCheckpoint, Op::NewAtom(vec![0x63; 1100])];
        for h in ctx.pick(vec![2204usize, 2300, 3400], vec![2204, 2205, 2208, 2300, 3303, 3304, 3400, 4500]) {
            let desc = format!("new_limited({h}) NewAtom(1100B) NewAtom(0080) TCheckpoint NewAtom(1100B)");
            let init = || {
                let mut st = St::new(Allocator::new_limited(h), h);
                let mut scratch = Acc::default();
                for op in &prefix {
                    let _ = step(&mut st, op, &thin, modes, &mut scratch);
                }
                st
            };
            let r = bfs(ctx, init, &desc, &thin, ctx.pick(3, 4), modes, 30_000_000);
            rep.states += r.states;
            rep.transitions += r.transitions;
            per.push(json!({"init": desc, "depth": ctx.pick(3, 4), "states": r.states, "transitions": r.transitions, "cap_failures": r.acc.get("cap_failures")}));
            rep.absorb(r.acc);
        }
    }
    for (desc, hl, ghost_atoms, ghost_pairs) in &inits {
        let limit = hl.unwrap_or(u32::MAX as usize);
        let init = || {
            let mut a = match hl {
                Some(h) => Allocator::new_limited(*h),
                None => Allocator::new(),
            };
            if *ghost_atoms > 0 {
                a.add_ghost_atom(*ghost_atoms).unwrap();
            }
            if *ghost_pairs > 0 {
                a.add_ghost_pair(*ghost_pairs).unwrap();
            }
            St::new(a, limit)
        };
        let r = bfs(ctx, init, desc, &al, depth, modes, 30_000_000);
        rep.states += r.states;
        rep.transitions += r.transitions;
        per.push(json!({"init": desc, "depth": depth, "states": r.states, "transitions": r.transitions, "cap_failures": r.acc.get("cap_failures")}));
        rep.absorb(r.acc);
    }
    rep.note("searches", json!(per));
    rep.evaluations = rep.transitions;
    rep.traces = rep.transitions;
    rep.nontrivial = rep.acc.get("cap_failures");
    rep.rule = format!("explicit-state BFS (depth {depth}) of the allocator alphabet from pre-loaded start states: new_limited(h) for every h in 1..={hmax} and h in {big:?} (next to the 49/1100-byte alphabet atoms), ghost atoms / ghost pairs at every distance k in 0..={kmax} from the 62,500,000 caps, and all three at once; plus limited allocators pre-populated with an old 1100-byte atom, an outstanding transparent checkpoint and 1100 bytes of garbage (heap cap 0..2200 bytes away); oracle per transition: the operation fails with TooManyAtoms / TooManyPairs / OutOfMemory iff the heap-only model would exceed the matching cap, a failed call leaves the complete internal fingerprint unchanged, and no count exceeds its cap in any reached state. Non-trivial = transitions that failed at a cap exactly as predicted.");
    rep.assumptions.push("when two caps are exceeded at once either error is accepted".into());
    rep
}
