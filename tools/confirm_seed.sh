#!/bin/bash
# confirm_seed.sh <worktree> <patchfile> <demofile>   — run inside a scratch worktree, never in /repo
# 1. apply patch 2. full suite must pass 3. demo must fail 4. revert 5. demo must pass
set -u
WT=$1; PATCH=$2; DEMO=$3
cd "$WT" || exit 2
git checkout -q -- . ; rm -f tests/seed_demo*.rs
OUT="$WT/_seed/confirm_$(basename $PATCH .diff).txt"
: > "$OUT"
git apply --check "$PATCH" || { echo "APPLY-FAIL" >> "$OUT"; exit 1; }
git apply "$PATCH"
SUITE=$(cargo nextest run --workspace --no-fail-fast --offline --test-threads 8 2>&1 | grep -E "Summary|FAIL" | tail -5)
echo "suite_with_patch: $SUITE" >> "$OUT"
cp "$DEMO" tests/seed_demo.rs
cargo test --offline --test seed_demo > /tmp/seed_demo_with.log 2>&1; echo "demo_with_patch_exit: $?" >> "$OUT"
git checkout -q -- .
cargo test --offline --test seed_demo > /tmp/seed_demo_without.log 2>&1; echo "demo_without_patch_exit: $?" >> "$OUT"
rm -f tests/seed_demo.rs
cat "$OUT"
