# hash-to-curve for BLS12-381 G1/G2 (RFC 9380, XMD:SHA-256, SSWU, RO); isogeny tables parsed from blst C sources
import re, hashlib, glob, sys
from bls import *
import os
SRC = sorted(glob.glob(os.path.expanduser("~/.cargo/registry/src/*/blst-0.3.16/blst/src")) + glob.glob("/root/.cargo/registry/src/*/blst-0.3.16/blst/src"))[0]
RINV = pow(1 << 384, -1, P)
def parse_tables(path, names, fp2):
    txt = open(path).read()
    out = {}
    for name in names:
        m = re.search(r"static const vec384x? %s\[\] = \{(.*?)\n    \};" % name, txt, re.S)
        body = re.sub(r"/\*.*?\*/", "", m.group(1), flags=re.S)
        vals = []
        for grp in re.findall(r"\{([^{}]*)\}", body):
            limbs = [int(x, 16) for x in re.findall(r"TO_LIMB_T\((0x[0-9a-fA-F]+)\)", grp)]
            if not limbs:
                assert grp.strip() == "0", grp
                vals.append(0); continue
            assert len(limbs) == 6
            v = sum(l << (64 * k) for k, l in enumerate(limbs)); vals.append(v * RINV % P)
        fp2_pairs = vals
        if fp2: vals = [Fq2(vals[i], vals[i + 1]) for i in range(0, len(vals), 2)]
        else: vals = [Fq(v) for v in vals]
        out[name] = vals
    return out
T2 = parse_tables(SRC + "/map_to_g2.c", ["isogeny_map_x_num", "isogeny_map_x_den", "isogeny_map_y_num", "isogeny_map_y_den"], True)
T1 = parse_tables(SRC + "/map_to_g1.c", ["isogeny_map_x_num", "isogeny_map_x_den", "isogeny_map_y_num", "isogeny_map_y_den"], False)

def expand_message_xmd(msg, dst, n):
    if len(dst) > 255: dst = hashlib.sha256(b"H2C-OVERSIZE-DST-" + dst).digest()
    ell = (n + 31) // 32
    dstp = dst + bytes([len(dst)])
    b0 = hashlib.sha256(bytes(64) + msg + n.to_bytes(2, "big") + b"\x00" + dstp).digest()
    b = [hashlib.sha256(b0 + b"\x01" + dstp).digest()]
    for i in range(2, ell + 1):
        b.append(hashlib.sha256(bytes(x ^ y for x, y in zip(b0, b[-1])) + bytes([i]) + dstp).digest())
    return b"".join(b)[:n]

def horner(coeffs, x, monic, one):
    # coeffs low->high (k_0..k_n), optional implicit leading 1
    acc = one if monic else None
    cs = list(coeffs)
    if acc is None: acc = cs.pop()
    for c in reversed(cs): acc = acc * x + c
    return acc

def sgn0_fp2(x): return (x.a & 1) | ((x.a == 0) & (x.b & 1))
def is_square_fp2(x): return x.is_zero() or (x ** ((P * P - 1) // 2)) == Fq2(1)
def sswu2(u):
    A = Fq2(0, 240); Bc = Fq2(1012, 1012); Z = Fq2(-2, -1)
    t = Z * Z * (u ** 4) + Z * u * u
    x1 = (-Bc) * A.inv() * (Fq2(1) + t.inv()) if not t.is_zero() else Bc * (Z * A).inv()
    gx1 = x1 * x1 * x1 + A * x1 + Bc
    x2 = Z * u * u * x1
    gx2 = x2 * x2 * x2 + A * x2 + Bc
    if is_square_fp2(gx1): x, y = x1, gx1.sqrt()
    else: x, y = x2, gx2.sqrt()
    if sgn0_fp2(u) != sgn0_fp2(y): y = -y
    return (x, y)
def iso2(p):
    x, y = p
    xn = horner(T2["isogeny_map_x_num"], x, False, Fq2(1)); xd = horner(T2["isogeny_map_x_den"], x, True, Fq2(1))
    yn = horner(T2["isogeny_map_y_num"], x, False, Fq2(1)); yd = horner(T2["isogeny_map_y_den"], x, True, Fq2(1))
    return (xn * xd.inv(), y * yn * yd.inv())
H_EFF2 = 0xbc69f08f2ee75b3584c6a0ea91b352888e2a8e9145ad7689986ff031508ffe1329c2f178731db956d82bf015d1212b02ec0ec69d7477c1ae954cbc06689f6a359894c0adebbf6b4e8020005aaa95551
def hash_to_g2(msg, dst):
    u = expand_message_xmd(msg, dst, 256)
    es = [int.from_bytes(u[i:i + 64], "big") % P for i in range(0, 256, 64)]
    q0 = iso2(sswu2(Fq2(es[0], es[1]))); q1 = iso2(sswu2(Fq2(es[2], es[3])))
    assert on_curve2(q0) and on_curve2(q1), "isogeny image not on E2"
    return ec_mul(ec_add(q0, q1), H_EFF2)

def sgn0_fp(x): return x.v & 1
def sswu1(u):
    A = Fq(0x144698a3b8e9433d693a02c96d4982b0ea985383ee66a8d8e8981aefd881ac98936f8da0e0f97f5cf428082d584c1d)
    Bc = Fq(0x12e2908d11688030018b12e8753eee3b2016c1f0f24f4070a0b9c14fcef35ef55a23215a316ceaa5d1cc48e98e172be0)
    Z = Fq(11)
    u2 = u * u
    t = Z * Z * u2 * u2 + Z * u2
    x1 = (-Bc) * A.inv() * (Fq(1) + t.inv()) if not t.is_zero() else Bc * (Z * A).inv()
    gx1 = x1 * x1 * x1 + A * x1 + Bc
    x2 = Z * u2 * x1
    gx2 = x2 * x2 * x2 + A * x2 + Bc
    def sq(v):
        r = pow(v.v, (P + 1) // 4, P); return Fq(r) if r * r % P == v.v else None
    y = sq(gx1); x = x1
    if y is None: x = x2; y = sq(gx2)
    if sgn0_fp(u) != sgn0_fp(y): y = -y
    return (x, y)
def iso1(p):
    x, y = p
    xn = horner(T1["isogeny_map_x_num"], x, False, Fq(1)); xd = horner(T1["isogeny_map_x_den"], x, True, Fq(1))
    yn = horner(T1["isogeny_map_y_num"], x, False, Fq(1)); yd = horner(T1["isogeny_map_y_den"], x, True, Fq(1))
    return (xn * xd.inv(), y * yn * yd.inv())
H_EFF1 = 0xd201000000010001
def hash_to_g1(msg, dst):
    u = expand_message_xmd(msg, dst, 128)
    es = [int.from_bytes(u[i:i + 64], "big") % P for i in range(0, 128, 64)]
    q0 = iso1(sswu1(Fq(es[0]))); q1 = iso1(sswu1(Fq(es[1])))
    assert on_curve1(q0) and on_curve1(q1), "isogeny image not on E1"
    return ec_mul(ec_add(q0, q1), H_EFF1)

if __name__ == "__main__":
    print("table sizes", {k: len(v) for k, v in T2.items()}, {k: len(v) for k, v in T1.items()})
    ok = bad = 0
    for fn in ["/repo/op-tests/test-blspy-hash.txt", "/repo/op-tests/test-bls-ops.txt"]:
        for line in open(fn):
            m = re.match(r"(g1_map|g2_map) (\S+)(?: (\S+))? => 0x([0-9a-f]+)", line)
            if not m: continue
            def tob(s):
                if s.startswith("0x"): return bytes.fromhex(s[2:])
                if s.startswith('"'): return s.strip('"').encode()
                return None
            msg = tob(m.group(2)); dst = tob(m.group(3)) if m.group(3) else None
            if msg is None or (m.group(3) and dst is None): continue
            if m.group(1) == "g2_map":
                got = compress2(hash_to_g2(msg, dst or b"BLS_SIG_BLS12381G2_XMD:SHA-256_SSWU_RO_AUG_")).hex()
            else:
                got = compress1(hash_to_g1(msg, dst or b"BLS_SIG_BLS12381G1_XMD:SHA-256_SSWU_RO_AUG_")).hex()
            if got == m.group(4): ok += 1
            else:
                bad += 1
                if bad < 4: print("MISMATCH", line[:100], got[:40])
            if ok + bad >= 40: break
    print("vectors ok", ok, "bad", bad)
