// C06 — the MALACHITE bignum backend is unobservable.
use crate::common::*;
use crate::opspace::*;
use crate::tree::{Enc, T, atom, list_t};
use clvmr::chia_dialect::ClvmFlags;
use serde_json::json;

const CEILING: u64 = 1 << 36;

fn check(op: u8, args: &T, flagsets: &[ClvmFlags], acc: &mut Acc) {
    for f in flagsets {
        let (plain, mal) = with_op(&[op], args, Enc::Inline, |a, o, n| {
            let p = call_op(a, o, n, *f, CEILING);
            let m = call_op(a, o, n, *f | ClvmFlags::MALACHITE, CEILING);
            (p, m)
        });
        acc.add("calls", 2);
        let canon = |b: u64| format!("op={op} args={} flags={:#x} budget={b}", args.hex(), f.bits());
        if plain.panicked || mal.panicked {
            acc.violation(canon(CEILING), format!("panic: num-bigint {} malachite {}", plain.brief(), mal.brief()));
            continue;
        }
        if plain != mal {
            // show result bytes
            acc.violation(canon(CEILING), format!("num-bigint {} but malachite {}", plain.brief(), mal.brief()));
            continue;
        }
        if plain.ok {
            acc.inc("both_succeed");
            acc.outcome(plain.cost ^ plain.digest as u64);
            for b in [plain.cost, plain.cost - 1] {
                let (p, m) = with_op(&[op], args, Enc::Inline, |a, o, n| (call_op(a, o, n, *f, b), call_op(a, o, n, *f | ClvmFlags::MALACHITE, b)));
                acc.add("calls", 2);
                if p != m {
                    acc.violation(canon(b), format!("num-bigint {} but malachite {}", p.brief(), m.brief()));
                }
            }
        } else {
            acc.inc("both_fail_same_error");
        }
    }
}

pub fn run(ctx: &Ctx) -> Report {
    let mut rep = Report::new("C06", "exploration");
    let alpha = ints(!ctx.quick());
    let flagsets: Vec<ClvmFlags> = vec![ClvmFlags::empty(), ClvmFlags::NEW_COST_MODEL, ClvmFlags::LIMITS, ClvmFlags::DISABLE_OP, ClvmFlags::LIMITS | ClvmFlags::DISABLE_OP, ClvmFlags::CANONICAL_INTS];
    let seed = ctx.seed;
    let k = alpha.len() as u64;
    // div, divmod, mod: arity 0..=3
    let max = ctx.pick(2usize, 3);
    let per = arg_lists_total(k, max);
    let alpha_ser: Vec<Vec<u8>> = alpha.iter().map(|t| t.ser()).collect();
    let acc = par_for(ctx, 3 * per, 64, |i| format!("divfamily#{i}"), |i, acc| {
        let alpha: Vec<T> = alpha_ser.iter().map(|b| crate::tree::deser(b).unwrap().0).collect();
        let op = [19u8, 20, 61][(i / per) as usize];
        let args = nth_arg_list(&alpha, max, i % per);
        check(op, &args, &flagsets, acc);
        acc.inc("arg_lists");
        acc.maybe_sample(sample_key(seed, i), || json!({"op": op, "args": args.hex()}));
    });
    rep.absorb(acc);
    // improper terminators for the two-argument forms
    let mut acc = Acc::default();
    for op in [19u8, 20, 61, 60] {
        for term in [atom(&[5]), atom(&[0x80, 0x00])] {
            for x in alpha.iter().take(6) {
                for y in alpha.iter().take(6) {
                    let args = list_t(&[x.clone(), y.clone()], term.clone());
                    check(op, &args, &flagsets, &mut acc);
                    let args3 = list_t(&[x.clone(), y.clone(), atom(&[7])], term.clone());
                    check(op, &args3, &flagsets, &mut acc);
                    acc.add("arg_lists", 2);
                }
            }
        }
    }
    rep.absorb(acc);
    // modpow: arity 0..=4, exponents <= 33 bytes; big base / modulus allowed
    let exps: Vec<T> = alpha.iter().filter(|t| t.bytes().map(|b| b.len() <= 33).unwrap_or(true)).cloned().collect();
    let exps_ser: Vec<Vec<u8>> = exps.iter().map(|t| t.ser()).collect();
    let ke = exps.len() as u64;
    let full = k * ke * k;
    let small: Vec<T> = alpha.iter().take(8).cloned().collect();
    let small_ser: Vec<Vec<u8>> = small.iter().map(|t| t.ser()).collect();
    let ks = small.len() as u64;
    let low = arg_lists_total(ks, 2) + ks.pow(4);
    let acc = par_for(ctx, full + low, 16, |i| format!("modpow#{i}"), |i, acc| {
        let alpha: Vec<T> = alpha_ser.iter().map(|b| crate::tree::deser(b).unwrap().0).collect();
        let args = if i < full {
            let exps: Vec<T> = exps_ser.iter().map(|b| crate::tree::deser(b).unwrap().0).collect();
            let b = &alpha[(i % k) as usize];
            let e = &exps[((i / k) % ke) as usize];
            let m = &alpha[(i / (k * ke)) as usize];
            crate::tree::list(&[b.clone(), e.clone(), m.clone()])
        } else {
            let small: Vec<T> = small_ser.iter().map(|b| crate::tree::deser(b).unwrap().0).collect();
            let j = i - full;
            let l2 = arg_lists_total(ks, 2);
            if j < l2 {
                nth_arg_list(&small, 2, j)
            } else {
                let mut r = j - l2;
                let mut items = vec![];
                for _ in 0..4 {
                    items.push(small[(r % ks) as usize].clone());
                    r /= ks;
                }
                crate::tree::list(&items)
            }
        };
        check(60, &args, &flagsets, acc);
        acc.inc("arg_lists");
        acc.maybe_sample(sample_key(seed, i ^ 0x5555), || json!({"op": 60, "args": args.hex()}));
    });
    rep.absorb(acc);
    rep.evaluations = rep.acc.get("calls");
    rep.nontrivial = rep.acc.get("both_succeed");
    rep.states = rep.acc.get("arg_lists");
    rep.transitions = rep.acc.get("calls");
    rep.traces = rep.acc.get("arg_lists") * flagsets.len() as u64;
    rep.rule = format!("div, divmod, mod over EVERY argument list of arity 0..={max} (and improper terminators) over a {}-value integer alphabet (boundary values in canonical / zero-padded / ff-padded form incl. eight zero bytes before 0x80, 257..2100-byte positive and negative operands, a pair); modpow over every (base, exponent <= 33 bytes, modulus) triple plus arities 0,1,2,4; x 6 flag sets, each called through ChiaDialect::op with and without MALACHITE under a high budget, the exact cost and cost-1; oracle: identical Ok(cost, result) or identical error string. Non-trivial = (argument list, flag set) pairs on which both backends succeed.", alpha.len());
    rep
}
