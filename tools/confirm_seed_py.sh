#!/bin/bash
# confirm_seed_py.sh <worktree> <patchfile> <demo.py>  — like confirm_seed.sh but the demo is a python script run against
# a wheel built (offline, without maturin) from the worktree
set -u
WT=$1; PATCH=$2; DEMO=$3
cd "$WT" || exit 2
git checkout -q -- . ; rm -f tests/seed_demo*.rs
OUT="$WT/_seed/confirm_$(basename $PATCH .diff).txt"
: > "$OUT"
build_wheel() {
  cargo build -p clvm_rs --release --offline --target-dir "$WT/target-wheel" > /dev/null 2>&1 || return 1
  rm -rf "$WT/_pyenv"; mkdir -p "$WT/_pyenv"; cp -r wheel/python/clvm_rs "$WT/_pyenv/"; cp "$WT/target-wheel/release/libclvm_rs.so" "$WT/_pyenv/clvm_rs/clvm_rs.so"
}
git apply --check "$PATCH" || { echo "APPLY-FAIL" >> "$OUT"; exit 1; }
git apply "$PATCH"
SUITE=$(cargo nextest run --workspace --no-fail-fast --offline --test-threads 8 2>&1 | grep -E "Summary|FAIL" | tail -5)
echo "suite_with_patch: $SUITE" >> "$OUT"
build_wheel; (cd "$WT/_seed" && PYTHONPATH="$WT/_pyenv" python3 "$DEMO" > /tmp/seed_demo_with.log 2>&1); echo "demo_with_patch_exit: $?" >> "$OUT"
git checkout -q -- .
build_wheel; (cd "$WT/_seed" && PYTHONPATH="$WT/_pyenv" python3 "$DEMO" > /tmp/seed_demo_without.log 2>&1); echo "demo_without_patch_exit: $?" >> "$OUT"
cat "$OUT"
