// C08 — soft-fork safety: extension-unaware nodes accept what aware nodes accept.
// C31 — softfork guards are isolated and always yield nil (uses the same hidden-guard oracle).
use crate::common::*;
use crate::domains::*;
use crate::progspace::*;
use crate::tree::{Enc, T, atom, list, nil, quote};
use clvmr::chia_dialect::{ChiaDialect, ClvmFlags};
use serde_json::json;

fn flagsets_c08(ctx: &Ctx) -> Vec<ClvmFlags> {
    let v = vec![ClvmFlags::empty(), ClvmFlags::MALACHITE, ClvmFlags::ENABLE_GC, ClvmFlags::LIMITS, ClvmFlags::LIMIT_SOFTFORK, ClvmFlags::DISABLE_OP, ClvmFlags::ENABLE_GC | ClvmFlags::LIMITS | ClvmFlags::LIMIT_SOFTFORK | ClvmFlags::DISABLE_OP | ClvmFlags::MALACHITE];
    if ctx.quick() { vec![v[0], v[2], v[6]] } else { v }
}

fn check_c08(prog: &T, env: &T, flags: ClvmFlags, acc: &mut Acc, space: &str) {
    with_loaded(prog, env, Enc::Inline, |l| {
        let aware = ChiaDialect::new(flags);
        let unaware = HideExt::new(flags);
        let a0 = l.run(&aware, 0);
        acc.inc("runs");
        let canon = |b: u64| format!("prog={} env={} flags={:#x} budget={b}", prog.hex(), env.hex(), flags.bits());
        if a0.panicked {
            acc.violation(canon(0), format!("[{space}] panic: {}", a0.err));
            return;
        }
        if !a0.ok {
            acc.inc("aware_fails");
            return;
        }
        acc.inc("aware_succeeds");
        let c = a0.cost;
        for b in [0u64, c, c.saturating_sub(1)] {
            if b == 0 && c == 0 {
                continue;
            }
            let a = if b == 0 { a0.clone() } else { l.run(&aware, b) };
            let u = l.run(&unaware, b);
            acc.add("runs", 2);
            if u.panicked {
                acc.violation(canon(b), format!("[{space}] unaware dialect panicked: {}", u.err));
                continue;
            }
            if a.ok {
                if !u.ok {
                    acc.violation(canon(b), format!("[{space}] aware dialect succeeds ({}) but the extension-unaware dialect fails ({})", a.brief(), u.brief()));
                } else if a.cost != u.cost || a.digest != u.digest {
                    acc.violation(canon(b), format!("[{space}] outcomes differ: aware {} unaware {}", a.brief(), u.brief()));
                } else if a.counts != u.counts {
                    acc.violation(canon(b), format!("[{space}] allocator counts differ after the run: aware {:?} unaware {:?}", a.counts, u.counts));
                } else {
                    acc.inc("compared_equal");
                }
            }
        }
        acc.outcome((a0.digest as u64) ^ c);
    });
}

fn ext_space() -> ProgSpace {
    // the two 4-byte secp opcodes, opcode 62 and neighbours, with vector arguments and junk arguments
    let mut progs: Vec<Vec<u8>> = vec![];
    let secp_ok = vector_args("test-secp-verify.txt", "secp256k1_verify", true);
    let secp_r1 = vector_args("test-secp-verify.txt", "secp256r1_verify", true);
    let junk: Vec<T> = vec![nil(), list(&[atom(&[1])]), list(&[atom(&[1; 33]), atom(&[2; 32]), atom(&[3; 64])]), list(&[atom(&[1; 33]), atom(&[2; 32]), atom(&[3; 64]), atom(&[9])])];
    for op in [vec![0x13u8, 0xd6, 0x1f, 0x00], vec![0x1c, 0x3a, 0x8f, 0x00], vec![0x13, 0xd6, 0x1f, 0x01], vec![0x13, 0xd6, 0x1f, 0x3f], vec![0x13, 0xd6, 0x1f, 0x40], vec![0x13, 0xd6, 0x1f, 0x80], vec![0x13, 0xd6, 0x1f, 0xc0], vec![0x1c, 0x3a, 0x8f, 0x40], vec![0x1c, 0x3a, 0x8f, 0xff], vec![0x13, 0xd6, 0x1e, 0x00], vec![0x00, 0x13, 0xd6, 0x1f, 0x00], vec![62], vec![63], vec![64], vec![65]] {
        for a in secp_ok.iter().chain(secp_r1.iter()).chain(junk.iter()) {
            let mut items = vec![];
            let mut cur = a.clone();
            while let T::P(x, y) = &cur {
                items.push(quote((**x).clone()));
                let n = (**y).clone();
                cur = n;
            }
            let call = crate::tree::cons(atom(&op), list(&items));
            progs.push(call.ser());
            // and inside a list context so that allocation follows
            progs.push(list(&[atom(&[4]), call, quote(atom(&[7]))]).ser());
        }
    }
    let total = progs.len() as u64;
    ProgSpace { name: format!("EXT({} programs: 4-byte secp opcodes, 62..65, vector and junk arguments)", progs.len()), total, get: Box::new(move |i| (crate::tree::deser(&progs[i as usize]).unwrap().0, std_env())) }
}

pub fn run(ctx: &Ctx) -> Report {
    let mut rep = Report::new("C08", "exploration");
    let flagsets = flagsets_c08(ctx);
    let spaces: Vec<ProgSpace> = vec![p5_full(), p_guard_args(), p_guard_then_op(), ext_space(), p_vectors(ctx.pick(2, 6))];
    let seed = ctx.seed;
    let mut notes = vec![];
    for sp in &spaces {
        let t_space = std::time::Instant::now();
        let nf = flagsets.len() as u64;
        let acc = par_for(ctx, sp.total * nf, 16, |i| { let (p, e) = sp.at(i / nf); format!("prog={} env={} flags={:#x}", p.hex(), e.hex(), flagsets[(i % nf) as usize].bits()) }, |i, acc| {
            let (p, e) = sp.at(i / nf);
            check_c08(&p, &e, flagsets[(i % nf) as usize], acc, &sp.name);
            acc.inc("cases");
            acc.maybe_sample(sample_key(seed, i ^ fnv(sp.name.as_bytes())), || json!({"space": sp.name, "prog": p.hex(), "flags": format!("{:#x}", flagsets[(i % nf) as usize].bits())}));
        });
        notes.push(json!({"space": sp.name, "wall_s": t_space.elapsed().as_secs_f64(), "programs": sp.total, "flag_sets": nf}));
        rep.absorb(acc);
    }
    rep.note("spaces", json!(notes));
    rep.evaluations = rep.acc.get("runs");
    rep.nontrivial = rep.acc.get("compared_equal");
    rep.states = rep.acc.get("cases");
    rep.transitions = rep.acc.get("runs");
    rep.traces = rep.acc.get("aware_succeeds");
    rep.rule = format!("every program of P5 (guards with classic, keccak, BLS, secp 4-byte and failing inner programs x 7 extensions x 16 declared costs x 6 contexts), EXT (4-byte secp opcodes and opcodes 62-65 with vector and junk arguments) and PV x {} non-strict flag sets without NEW_COST_MODEL, run on ChiaDialect and on a wrapper dialect that reports every softfork extension as unknown and routes opcodes 13d61f00 / 1c3a8f00 to op_unknown, under budgets 0, C, C-1; oracle: aware success => unaware success with the same result, cost and atom/pair/heap counts. Non-trivial = budgeted runs where the aware dialect succeeded and all observables were compared.", flagsets.len());
    rep
}

// ---------------------------------------------------------------------
// C31

fn nested_guard(depth: usize, flags: ClvmFlags) -> T {
    // innermost body
    let mut p = crate::progspace::parse_prog("(q . 1)");
    let guard_cost = if flags.contains(ClvmFlags::NEW_COST_MODEL) { 500 } else { 140 };
    for _ in 0..depth {
        let c = standalone_cost(&p, &nil(), flags & ClvmFlags::NEW_COST_MODEL).expect("nested guard body must succeed") + guard_cost;
        p = list(&[atom(&[36]), quote(crate::tree::int_atom(c as i128)), quote(nil()), quote(p), quote(nil())]);
    }
    p
}

fn check_c31(prog: &T, env: &T, flags: ClvmFlags, acc: &mut Acc, space: &str) {
    with_loaded(prog, env, Enc::Inline, |l| {
        let aware = ChiaDialect::new(flags);
        let hidden = HideExt::new(flags);
        let a = l.run(&aware, 0);
        let h = l.run(&hidden, 0);
        acc.add("runs", 2);
        let canon = format!("prog={} env={} flags={:#x}", prog.hex(), env.hex(), flags.bits());
        if a.panicked || h.panicked {
            acc.violation(canon, format!("[{space}] panic: {} / {}", a.brief(), h.brief()));
            return;
        }
        if !a.ok {
            acc.inc("aware_fails");
            return;
        }
        acc.inc("guard_runs_completed");
        if !h.ok && flags.contains(ClvmFlags::NEW_COST_MODEL) && h.is_cost_exceeded() {
            // a grandfathered guard ignores its declared cost; the hidden guard charges it (and may exceed the budget)
            acc.inc("grandfathered_hidden_run_exceeds_cost");
            return;
        }
        if !h.ok {
            acc.violation(canon, format!("[{space}] run with guards hidden fails ({}) although the aware run completes", h.err));
            return;
        }
        if a.digest != h.digest {
            let (_, s) = l.run_show(&aware, 0);
            acc.violation(canon.clone(), format!("[{space}] a completed guard did not yield nil: result {s} differs from the hidden-guard run"));
        }
        if a.counts != h.counts {
            acc.violation(canon.clone(), format!("[{space}] allocator counts after the run {:?} differ from the hidden-guard run {:?}: the guard leaked or lost accounting", a.counts, h.counts));
        }
        let grandfathered = flags.contains(ClvmFlags::NEW_COST_MODEL);
        if a.cost != h.cost {
            if grandfathered {
                acc.inc("grandfathered_cost_differs");
            } else {
                acc.violation(canon, format!("[{space}] guard consumed {} but the declared cost accounts for {}", a.cost, h.cost));
            }
        }
    });
}

pub fn run_c31(ctx: &Ctx) -> Report {
    let mut rep = Report::new("C31", "exploration");
    let flagsets: Vec<ClvmFlags> = ctx.pick(
        vec![ClvmFlags::empty(), ClvmFlags::NEW_COST_MODEL, ClvmFlags::ENABLE_GC | ClvmFlags::LIMIT_SOFTFORK, ClvmFlags::ENABLE_KECCAK_OPS_OUTSIDE_GUARD],
        vec![ClvmFlags::empty(), ClvmFlags::NEW_COST_MODEL, ClvmFlags::ENABLE_GC, ClvmFlags::ENABLE_GC | ClvmFlags::NEW_COST_MODEL, ClvmFlags::LIMIT_SOFTFORK, ClvmFlags::MALACHITE | ClvmFlags::LIMITS, ClvmFlags::NEW_COST_MODEL | ClvmFlags::ENABLE_KECCAK_OPS_OUTSIDE_GUARD | ClvmFlags::ENABLE_SHA256_TREE, ClvmFlags::ENABLE_KECCAK_OPS_OUTSIDE_GUARD, ClvmFlags::ENABLE_KECCAK_OPS_OUTSIDE_GUARD | ClvmFlags::ENABLE_SHA256_TREE | ClvmFlags::ENABLE_SECP_OPS],
    );
    let seed = ctx.seed;
    let nf = flagsets.len() as u64;
    for sp in [p5_full(), p_guard_args(), p_guard_then_op()] {
        let acc = par_for(ctx, sp.total * nf, 16, |i| { let (p, e) = sp.at(i / nf); format!("prog={} env={} flags={:#x}", p.hex(), e.hex(), flagsets[(i % nf) as usize].bits()) }, |i, acc| {
            let (p, e) = sp.at(i / nf);
            check_c31(&p, &e, flagsets[(i % nf) as usize], acc, &sp.name);
            acc.inc("cases");
            acc.maybe_sample(sample_key(seed, i ^ fnv(sp.name.as_bytes())), || json!({"prog": p.hex(), "flags": format!("{:#x}", flagsets[(i % nf) as usize].bits())}));
        });
        rep.absorb(acc);
    }
    let acc = Acc::default();
    rep.absorb(acc);
    // nesting depth
    let mut acc = Acc::default();
    for model in [ClvmFlags::empty(), ClvmFlags::NEW_COST_MODEL] {
        for depth in [1usize, 2, 3, 19, 20, 21, 22] {
            let p = nested_guard(depth, model);
            for lim in [ClvmFlags::empty(), ClvmFlags::LIMIT_SOFTFORK] {
                let flags = model | lim;
                let o = with_loaded(&p, &nil(), Enc::Inline, |l| l.run_flags(flags, 0));
                acc.add("runs", 1);
                acc.inc("nesting_cases");
                let expect_ok = !(lim.contains(ClvmFlags::LIMIT_SOFTFORK) && depth > 20);
                let canon = format!("nested guards depth={depth} flags={:#x}", flags.bits());
                if o.ok != expect_ok {
                    acc.violation(canon, format!("expected success={expect_ok}, got {}", o.brief()));
                } else if !o.ok && o.err != "softfork stack depth exceeded" {
                    acc.violation(canon, format!("depth limit reported as '{}'", o.err));
                } else if o.ok && o.digest != t_digest(&nil()) {
                    acc.violation(canon, "nested guard did not yield nil".into());
                }
                check_c31(&p, &nil(), flags, &mut acc, "nesting");
            }
        }
    }
    rep.absorb(acc);
    // footprint family: K allocation-heavy inner guards in sequence, bare or inside an outer guard. Every guard
    // must give its allocations back when IT exits, so the smallest heap limit / atom headroom / pair headroom under
    // which the program succeeds must not grow with K (beyond what the enclosing program itself keeps).
    let mut acc = Acc::default();
    for model in [ClvmFlags::empty(), ClvmFlags::NEW_COST_MODEL] {
        let guard_cost = if model.contains(ClvmFlags::NEW_COST_MODEL) { 500 } else { 140 };
        let big = atom(&crate::domains::big_atom(1000));
        // inner body: allocates 2000 heap bytes, 3 atoms and 2 pairs, result discarded by the guard
        let body = list(&[atom(&[4]), list(&[atom(&[14]), quote(big.clone()), quote(big.clone())]), list(&[atom(&[4]), quote(atom(&[1])), list(&[atom(&[11]), quote(atom(b"x"))])])]);
        let c_body = standalone_cost(&body, &nil(), model).expect("footprint body runs") + guard_cost;
        let inner = list(&[atom(&[36]), quote(crate::tree::int_atom(c_body as i128)), quote(nil()), quote(body.clone()), quote(nil())]);
        // headroom of the bare sequence with the guards hidden: what the enclosing program itself keeps
        let mut hidden_bare: Vec<[usize; 3]> = vec![];
        for outer in [false, true] {
            let mut need: Vec<(usize, [usize; 6])> = vec![];
            for k in [1usize, 2, 3, 5] {
                // (c G (c G ... ())) with K copies of the inner guard
                let mut seq = quote(nil());
                for _ in 0..k {
                    seq = list(&[atom(&[4]), inner.clone(), seq]);
                }
                let prog = if outer {
                    let c = standalone_cost(&seq, &nil(), model).expect("sequence runs") + guard_cost;
                    list(&[atom(&[36]), quote(crate::tree::int_atom(c as i128)), quote(nil()), quote(seq), quote(nil())])
                } else {
                    seq
                };
                let unconstrained = with_loaded(&prog, &nil(), Enc::Inline, |l| l.run_flags(model, 0));
                if !unconstrained.ok {
                    acc.violation(format!("footprint k={k} outer={outer} model={:#x}", model.bits()), format!("footprint program does not run: {}", unconstrained.brief()));
                    continue;
                }
                let (a0, p0, h0) = with_loaded(&prog, &nil(), Enc::Inline, |l| (l.a.atom_count(), l.a.pair_count(), l.a.heap_size()));
                // smallest headroom that succeeds, for each of the three caps (monotone => binary search),
                // on the aware dialect and on the dialect that hides the guards (whose guards allocate nothing)
                let mut mins = [0usize; 6];
                for (wi, (which, hidden)) in [("heap", false), ("atoms", false), ("pairs", false), ("heap", true), ("atoms", true), ("pairs", true)].iter().enumerate() {
                    let (mut lo, mut hi) = (0usize, 20000usize);
                    while lo < hi {
                        let mid = (lo + hi) / 2;
                        let ok = std::panic::catch_unwind(std::panic::AssertUnwindSafe(|| {
                            if *which == "heap" {
                                with_loaded_limit(&prog, &nil(), Enc::Inline, h0 + mid, |l| if *hidden { l.run(&HideExt::new(model), 0).ok } else { l.run_flags(model, 0).ok })
                            } else {
                                with_loaded(&prog, &nil(), Enc::Inline, |l| {
                                    let cap = 62_500_000usize;
                                    if *which == "atoms" {
                                        let _ = l.a.add_ghost_atom(cap - a0 - mid);
                                    } else {
                                        let _ = l.a.add_ghost_pair(cap - p0 - mid);
                                    }
                                    if *hidden {
                                        run_raw(l.a, &HideExt::new(model), l.p, l.e, 0).ok
                                    } else {
                                        run_raw(l.a, &ChiaDialect::new(model), l.p, l.e, 0).ok
                                    }
                                })
                            }
                        })).unwrap_or(false);
                        acc.inc("runs");
                        if ok { hi = mid } else { lo = mid + 1 }
                    }
                    mins[wi] = lo;
                }
                if !outer {
                    hidden_bare.push([mins[3], mins[4], mins[5]]);
                } else {
                    // inside an outer guard the hidden run skips the whole body; the baseline is the bare sequence
                    let hb = hidden_bare[need.len()];
                    mins[3] = hb[0];
                    mins[4] = hb[1];
                    mins[5] = hb[2];
                }
                need.push((k, mins));
                acc.inc("footprint_cases");
            }
            // what one guard needs on top of the hidden-guard run (K=1) bounds what K guards may need on top of
            // their hidden-guard run: allocations of a completed guard are given back when it exits
            if let Some((_, base)) = need.first().cloned() {
                for (k, m) in &need[1..] {
                    let canon = format!("footprint of {k} sequential guards (inside an outer guard: {outer}) model={:#x}", model.bits());
                    for (r, name) in ["heap", "atoms", "pairs"].iter().enumerate() {
                        let one = base[r].saturating_sub(base[r + 3]);
                        let many = m[r].saturating_sub(m[r + 3]);
                        if many > one {
                            acc.violation(canon.clone(), format!("{name}: {k} guards need {} more headroom than the run with the guards hidden, one guard needs only {one} more - completed guards did not give their allocations back when they exited", many));
                        }
                    }
                }
            }
        }
    }
    rep.absorb(acc);
    rep.evaluations = rep.acc.get("runs");
    rep.nontrivial = rep.acc.get("guard_runs_completed");
    rep.states = rep.acc.get("cases") + rep.acc.get("nesting_cases") + rep.acc.get("footprint_cases");
    rep.transitions = rep.acc.get("runs");
    rep.traces = rep.acc.get("guard_runs_completed");
    rep.rule = format!("every program of P5 (guards bare, followed / preceded by allocation, inside GC candidates, two in sequence; inner programs that allocate atoms, pairs, BLS points; failing inner programs; nested guards) x {} flag sets under BOTH cost models: the run on ChiaDialect is compared with the run on a dialect that hides every extension (where a guard is a no-op returning nil for its declared cost): same result (=> the guard yields nil), same atom/pair/heap counts (=> counts restored to their values at guard entry), same cost except for grandfathered extensions under NEW_COST_MODEL; nested guards of depth 1,2,3,19,20,21,22 with and without LIMIT_SOFTFORK (20 succeed, 21 fail with the dedicated error); footprint family: 1,2,3,5 allocation-heavy guards in sequence, bare and inside an outer guard - the smallest heap limit and atom headroom under which the program succeeds must not depend on the number of completed guards (counts are given back when each guard exits, not later). Non-trivial = runs in which the aware dialect completed (a guard was really entered or rejected consistently).", flagsets.len());
    rep.assumptions.push("counts 'as they were when the guard was entered' are observed as equality of the final counts with the hidden-guard run, whose guard allocates nothing".into());
    rep
}
