#!/usr/bin/env python3
"""collect_seed.py <PROP> <n> <patchfile> <demofile> <confirmfile> '<needs>' '<caught_by>' ['<note>']
Copies a confirmed seeded change into /verif/seeded/<PROP>-<n>/ with meta.json."""
import sys, os, shutil, json
prop, n, patch, demo, confirm, needs, caught = sys.argv[1:8]
note = sys.argv[8] if len(sys.argv) > 8 else ""
d = f"/verif/seeded/{prop}-{n}"
os.makedirs(d, exist_ok=True)
shutil.copy(patch, f"{d}/patch.diff")
shutil.copy(demo, f"{d}/" + ("demo.py" if demo.endswith(".py") else "demo.rs"))
wt = os.path.dirname(os.path.dirname(patch))
if os.path.exists(f"{wt}/_seed/notes.md"):
    shutil.copy(f"{wt}/_seed/notes.md", f"{d}/notes.md")
conf = open(confirm).read() if os.path.exists(confirm) else ""
meta = {
    "breaks_property": prop,
    "needs_to_manifest": needs,
    "confirmed_in_scratch_worktree": {
        "what_i_ran": "tools/confirm_seed.sh <worktree> <patch> <demo>: git apply; cargo nextest run --workspace --no-fail-fast --offline; cargo test --test seed_demo (expect failure); git checkout; cargo test --test seed_demo (expect success)",
        "output": conf.strip().splitlines(),
    },
    "detected_by": caught,
    "how_checked": "tools/try_seed.sh <patch> <check ids>: git -C /repo apply; ./check <id> --tier quick; git -C /repo checkout -- .",
    "note": note,
}
json.dump(meta, open(f"{d}/meta.json", "w"), indent=1)
print(d)
