// C05 — fast paths and diagnostic build features are unobservable.
// Three separately built harness binaries (default, no-fastpath, counters+pre-eval) enumerate the same
// cases and write one outcome digest per case; the default binary compares the three streams.
use crate::common::*;
use crate::domains::*;
use crate::opspace::*;
use crate::progspace::*;
use crate::tree::{ENCS, Enc, T, atom, int_atom, list, list_t};
use clvmr::chia_dialect::{ChiaDialect, ClvmFlags};
use serde_json::json;
use std::sync::atomic::{AtomicU64, Ordering};

#[cfg(feature = "instr")]
fn run_subject(l: &mut Loaded, flags: ClvmFlags, budget: u64) -> Outcome {
    use clvmr::run_program::run_program_with_pre_eval;
    use std::cell::Cell;
    use std::rc::Rc;
    // an observe-only callback: reads program / env / result, changes nothing
    let seen = Rc::new(Cell::new(0u64));
    let s2 = seen.clone();
    let pre: clvmr::run_program::PreEval = Box::new(move |a, prog, env| {
        let x = node_digest(a, prog) as u64 ^ node_digest(a, env) as u64;
        s2.set(s2.get().wrapping_add(x));
        let s3 = s2.clone();
        Ok(Some(Box::new(move |a: &mut clvmr::allocator::Allocator, res: Option<clvmr::allocator::NodePtr>| {
            if let Some(r) = res {
                s3.set(s3.get() ^ node_digest(a, r) as u64);
            }
        })))
    });
    let d = ChiaDialect::new(flags);
    l.a.clear_validation_caches();
    let r = std::panic::catch_unwind(std::panic::AssertUnwindSafe(|| run_program_with_pre_eval(l.a, &d, l.p, l.e, budget, Some(pre))));
    let counts = (l.a.atom_count(), l.a.pair_count(), l.a.heap_size());
    let allocated = (0, 0, 0);
    let o = match r {
        Ok(Ok(red)) => Outcome { ok: true, cost: red.0, digest: node_digest(l.a, red.1), err: String::new(), counts, allocated, panicked: false },
        Ok(Err(e)) => Outcome { ok: false, cost: 0, digest: 0, err: e.to_string(), counts, allocated, panicked: false },
        Err(p) => Outcome { ok: false, cost: 0, digest: 0, err: panic_msg(p), counts, allocated, panicked: true },
    };
    l.restore();
    // and through run_program_with_counters
    let (_c, r2) = clvmr::run_program::run_program_with_counters(l.a, &d, l.p, l.e, budget);
    let same = match (&r2, o.ok) {
        (Ok(red), true) => red.0 == o.cost && node_digest(l.a, red.1) == o.digest,
        (Err(e), false) => e.to_string() == o.err,
        _ => false,
    };
    l.restore();
    if !same && !o.panicked {
        return Outcome { err: format!("run_program_with_counters differs from run_program_with_pre_eval: {:?}", r2.map(|r| r.0)), panicked: true, ..o };
    }
    o
}

#[cfg(not(feature = "instr"))]
fn run_subject(l: &mut Loaded, flags: ClvmFlags, budget: u64) -> Outcome {
    l.run_flags(flags, budget)
}

fn outcome_digest(o: &Outcome) -> u64 {
    let mut h = fnv(o.err.as_bytes());
    h = fnv_mix(h, &o.cost.to_le_bytes());
    h = fnv_mix(h, &o.digest.to_le_bytes());
    h = fnv_mix(h, &[o.ok as u8, o.panicked as u8]);
    h = fnv_mix(h, &(o.counts.0 as u64).to_le_bytes());
    h = fnv_mix(h, &(o.counts.1 as u64).to_le_bytes());
    fnv_mix(h, &(o.counts.2 as u64).to_le_bytes())
}
fn op_digest(o: &OpOutcome) -> u64 {
    let mut h = fnv(o.err.as_bytes());
    h = fnv_mix(h, &o.cost.to_le_bytes());
    h = fnv_mix(h, &o.digest.to_le_bytes());
    fnv_mix(h, &[o.ok as u8, o.panicked as u8])
}

const FLAGS: [ClvmFlags; 5] = [ClvmFlags::empty(), ClvmFlags::NEW_COST_MODEL, ClvmFlags::MALACHITE, ClvmFlags::NEW_COST_MODEL.union(ClvmFlags::ENABLE_GC), ClvmFlags::LIMITS.union(ClvmFlags::CANONICAL_INTS)];

struct Plan {
    spaces: Vec<ProgSpace>,
    op_alpha: Vec<Vec<u8>>, // serialized T
    op_arity: usize,
    ops: Vec<Vec<u8>>,
    sha_cases: u64,
    ladder_all: bool,
}

fn plan(quick: bool) -> Plan {
    let allops = { let mut o = all_single_byte_ops(); o.extend(multibyte_ops()); o };
    let spaces = vec![
        p1("P1", allops.clone(), if quick { a6() } else { a12() }, vec![vec![2u8], vec![5], vec![11]], if quick { 2 } else { 3 }),
        p1b(allops.clone(), 2),
        p2(classic_ops(), if quick { vec![vec![1], vec![0x80]] } else { vec![vec![], vec![1], vec![0x80]] }),
        if quick { p3_env(4, 2, &[vec![], vec![1]]) } else { p3(4, 2) },
        p4(if quick { 12 } else { 60 }, false),
        p_paths(40),
        p_gc(),
        p_vectors(if quick { 2 } else { 6 }),
        p_limits(!quick),
    ];
    let mut alpha: Vec<T> = atoms_t(&if quick { a12() } else { a24() });
    alpha.push(crate::tree::cons(atom(&[1]), atom(&[2])));
    if quick {
        alpha.push(atom(&[0x7f; 8]));
        alpha.push(atom(&big_atom(300)));
    }
    // operators that have a fast path, plus neighbours
    let ops: Vec<Vec<u8>> = vec![vec![11], vec![16], vec![17], vec![18], vec![21], vec![19], vec![24], vec![25], vec![26], vec![9], vec![10], vec![12], vec![13], vec![14], vec![22], vec![23], vec![27], vec![32], vec![33], vec![34], vec![48], vec![61], vec![63]];
    Plan { spaces, op_alpha: alpha.iter().map(|t| t.ser()).collect(), op_arity: if quick { 3 } else { 4 }, ops, sha_cases: 41 * 3 * 2 * 2, ladder_all: !quick }
}

/// budgets for cases that FAIL with an unlimited budget: a build-independent geometric ladder (ratio sqrt 2) up to
/// 2^24 — which error a small budget produces (cost exceeded vs the operand error) must not depend on the build
fn ladder() -> Vec<u64> {
    let mut v = vec![];
    let mut x = 1.0f64;
    while x < (1u64 << 24) as f64 {
        let b = x.round() as u64;
        if v.last() != Some(&b) {
            v.push(b);
        }
        x *= std::f64::consts::SQRT_2;
    }
    v
}

/// total number of cases and a function computing the digest of case i
fn case_count(p: &Plan) -> (u64, Vec<u64>) {
    let mut offs = vec![0u64];
    for sp in &p.spaces {
        offs.push(offs.last().unwrap() + sp.total * FLAGS.len() as u64);
    }
    let per = arg_lists_total(p.op_alpha.len() as u64, p.op_arity);
    offs.push(offs.last().unwrap() + p.ops.len() as u64 * per * 3 * 2);
    offs.push(offs.last().unwrap() + p.sha_cases);
    (*offs.last().unwrap(), offs)
}

fn describe(p: &Plan, offs: &[u64], i: u64) -> String {
    let ns = p.spaces.len();
    for (si, sp) in p.spaces.iter().enumerate() {
        if i < offs[si + 1] {
            let j = i - offs[si];
            let (prog, env) = sp.at(j / FLAGS.len() as u64);
            return format!("[{}] prog={} env={} flags={:#x}", sp.name, prog.hex(), env.hex(), FLAGS[(j % FLAGS.len() as u64) as usize].bits());
        }
    }
    if i < offs[ns + 1] {
        let j = i - offs[ns];
        let alpha: Vec<T> = p.op_alpha.iter().map(|b| crate::tree::deser(b).unwrap().0).collect();
        let per = arg_lists_total(alpha.len() as u64, p.op_arity);
        let cm = j % 2;
        let enc = ENCS[((j / 2) % 3) as usize];
        let args = nth_arg_list(&alpha, p.op_arity, (j / 6) % per);
        let op = &p.ops[(j / (6 * per)) as usize];
        return format!("[direct] op={} args={} enc={enc:?} new_cost_model={}", hx(op), args.hex(), cm == 1);
    }
    format!("[sha256 (1 n)] case {}", i - offs[ns + 1])
}

fn eval_case(p: &Plan, offs: &[u64], i: u64) -> (u64, String) {
    clvmr::verif::set_rng_script(Some(vec![]));
    let ns = p.spaces.len();
    for (si, sp) in p.spaces.iter().enumerate() {
        if i < offs[si + 1] {
            let j = i - offs[si];
            let (prog, env) = sp.at(j / FLAGS.len() as u64);
            let flags = FLAGS[(j % FLAGS.len() as u64) as usize];
            return with_loaded(&prog, &env, Enc::Inline, |l| {
                let o0 = run_subject(l, flags, 0);
                let mut h = outcome_digest(&o0);
                let mut text = o0.brief();
                if o0.ok {
                    for b in [o0.cost, o0.cost.saturating_sub(1).max(1), (o0.cost / 2).max(1)] {
                        let o = run_subject(l, flags, b);
                        h = fnv_mix(h, &outcome_digest(&o).to_le_bytes());
                        text.push_str(&format!(" | budget {b}: {}", o.brief()));
                    }
                } else if p.ladder_all || !sp.name.starts_with("P3") {
                    for b in ladder() {
                        let o = run_subject(l, flags, b);
                        h = fnv_mix(h, &outcome_digest(&o).to_le_bytes());
                        if text.len() < 600 {
                            text.push_str(&format!(" | budget {b}: {}", o.brief()));
                        }
                    }
                }
                (h, text)
            });
        }
    }
    if i < offs[ns + 1] {
        let j = i - offs[ns];
        let alpha: Vec<T> = p.op_alpha.iter().map(|b| crate::tree::deser(b).unwrap().0).collect();
        let per = arg_lists_total(alpha.len() as u64, p.op_arity);
        let flags = if j % 2 == 1 { ClvmFlags::NEW_COST_MODEL } else { ClvmFlags::empty() };
        let enc = ENCS[((j / 2) % 3) as usize];
        let args = nth_arg_list(&alpha, p.op_arity, (j / 6) % per);
        let op = &p.ops[(j / (6 * per)) as usize];
        let flags = flags | ClvmFlags::ENABLE_SHA256_TREE;
        let o = with_op(op, &args, enc, |a, o, n| call_op(a, o, n, flags, 1 << 40));
        let mut h = op_digest(&o);
        let mut text = o.brief();
        if o.ok {
            let o2 = with_op(op, &args, enc, |a, oo, n| call_op(a, oo, n, flags, o.cost - 1));
            h = fnv_mix(h, &op_digest(&o2).to_le_bytes());
            text.push_str(&format!(" | budget C-1: {}", o2.brief()));
        } else {
            for b in ladder() {
                let o2 = with_op(op, &args, enc, |a, oo, n| call_op(a, oo, n, flags, b));
                h = fnv_mix(h, &op_digest(&o2).to_le_bytes());
                if text.len() < 600 {
                    text.push_str(&format!(" | budget {b}: {}", o2.brief()));
                }
            }
        }
        return (h, text);
    }
    // sha256 of (1 n) for n = 0..=40 in every encoding, with nil and non-nil terminator, both models
    let j = i - offs[ns + 1];
    let n = j % 41;
    let enc = ENCS[((j / 41) % 3) as usize];
    let term = (j / 123) % 2;
    let cm = (j / 246) % 2;
    let flags = if cm == 1 { ClvmFlags::NEW_COST_MODEL } else { ClvmFlags::empty() };
    let args = list_t(&[int_atom(1), int_atom(n as i128)], if term == 1 { atom(&[9]) } else { crate::tree::nil() });
    let o = with_op(&[11], &args, enc, |a, oo, nn| call_op(a, oo, nn, flags, 1 << 40));
    let _ = list;
    (op_digest(&o), o.brief())
}

/// emit mode: write one u64 digest per case
pub fn emit(quick: bool, threads: usize, out: &str) {
    let p = plan(quick);
    let (total, offs) = case_count(&p);
    let digests: Vec<AtomicU64> = (0..total).map(|_| AtomicU64::new(0)).collect();
    let ctx = Ctx { tier: if quick { Tier::Quick } else { Tier::Thorough }, seed: 0, threads, start: std::time::Instant::now(), wall_cap_s: 7200.0, replay: None };
    let _ = par_for(&ctx, total, 64, |i| format!("case#{i}"), |i, _acc| {
        let (h, _) = eval_case(&p, &offs, i);
        digests[i as usize].store(h | 1, Ordering::Relaxed);
    });
    let mut bytes = Vec::with_capacity(total as usize * 8);
    for d in &digests {
        bytes.extend_from_slice(&d.load(Ordering::Relaxed).to_le_bytes());
    }
    std::fs::write(out, bytes).unwrap();
}

pub fn show(quick: bool, i: u64) {
    let p = plan(quick);
    let (_, offs) = case_count(&p);
    let (h, text) = eval_case(&p, &offs, i);
    println!("{:016x} {}", h | 1, text);
}

pub fn run(ctx: &Ctx) -> Report {
    let mut rep = Report::new("C05", "exploration");
    let quick = ctx.quick();
    let p = plan(quick);
    let (total, offs) = case_count(&p);
    let dir = std::env::var("VH_BIN_DIR").unwrap_or_else(|_| "/verif/target".into());
    let tier = if quick { "quick" } else { "thorough" };
    let mut files = vec![];
    let builds = [("base", std::env::current_exe().unwrap().to_string_lossy().to_string()), ("nofast", std::env::var("VH_BIN_NOFAST").unwrap_or_default()), ("instr", std::env::var("VH_BIN_INSTR").unwrap_or_default())];
    // run the three binaries one after the other (each uses all cores)
    for (name, exe) in &builds {
        if exe.is_empty() || !std::path::Path::new(exe).exists() {
            rep.machinery(format!("binary for build '{name}' not available (driver must build it and pass VH_BIN_{})", name.to_uppercase()));
            return rep;
        }
        let out = format!("{dir}/C05.{tier}.{name}.digests");
        let _ = std::fs::remove_file(&out);
        let st = std::process::Command::new(exe).args(["C05EMIT", tier, &ctx.threads.to_string(), &out]).status();
        if !st.map(|s| s.success()).unwrap_or(false) || !std::path::Path::new(&out).exists() {
            rep.machinery(format!("emit run of build '{name}' failed"));
            return rep;
        }
        files.push((name.to_string(), exe.clone(), std::fs::read(&out).unwrap()));
    }
    let base = &files[0].2;
    if base.len() as u64 != total * 8 {
        rep.machinery("digest stream has unexpected length".into());
        return rep;
    }
    for (name, exe, data) in &files[1..] {
        if data.len() != base.len() {
            rep.machinery(format!("digest stream of build '{name}' has a different length"));
            return rep;
        }
        let mut mism = 0;
        for i in 0..total as usize {
            if data[i * 8..i * 8 + 8] != base[i * 8..i * 8 + 8] {
                mism += 1;
                if mism <= 40 {
                    let show = |exe: &str| std::process::Command::new(exe).args(["C05SHOW", tier, &i.to_string()]).output().map(|o| String::from_utf8_lossy(&o.stdout).trim().to_string()).unwrap_or_default();
                    rep.acc.violation(format!("{} build={name}", describe(&p, &offs, i as u64)), format!("default build: {} ; {name} build: {}", show(&files[0].1), show(exe)));
                } else {
                    rep.acc.violation_count += 1;
                }
            }
        }
        rep.note(&format!("mismatches_{name}"), json!(mism));
    }
    // distinct outcomes (non-vacuity) from the base stream
    let mut distinct = std::collections::HashSet::new();
    for i in 0..total as usize {
        distinct.insert(u64::from_le_bytes(base[i * 8..i * 8 + 8].try_into().unwrap()));
    }
    rep.note("distinct_outcome_digests", json!(distinct.len()));
    rep.note("case_layout", json!({"program_spaces": p.spaces.iter().map(|s| json!({"space": s.name, "programs": s.total, "flag_sets": FLAGS.len()})).collect::<Vec<_>>(), "direct_operator_cases": offs[p.spaces.len() + 1] - offs[p.spaces.len()], "sha256_1_n_cases": p.sha_cases}));
    for k in 0..3u64 {
        let i = sample_key(ctx.seed, k) % total;
        rep.extra_samples.push(json!({"case": describe(&p, &offs, i)}));
    }
    rep.evaluations = total * 3;
    rep.nontrivial = distinct.len() as u64;
    rep.states = total;
    rep.transitions = total * 3;
    rep.traces = total * 2;
    rep.rule = format!("{total} cases, each evaluated by three separately built harness binaries (default features, clvmr/no-fastpath, clvmr/counters+pre-eval with an observe-only callback and run_program_with_counters): every program of P1, P1b, P2, P3, P4, PATHS, GC, PV, LIMITS x 5 flag sets (incl. LIMITS|CANONICAL_INTS) under budget 0, C, C-1, C/2 (programs that fail with budget 0: a 48-step geometric budget ladder 1..2^24 instead, P3 only in the thorough tier); 23 operators (all with a fast path and their neighbours) called directly with EVERY argument list of arity <={} over {} atoms in inline / heap / view representation under both cost models (budget high and C-1; failing calls: the budget ladder); sha256 of (1 n) for n = 0..40 in every representation with nil and non-nil terminator. One outcome digest (result, cost, error string, atom/pair/heap counts) per case; the streams must be byte-identical. The accumulator choice is scripted identically in the three binaries (hook H4). Non-trivial = distinct outcome digests.", p.op_arity, p.op_alpha.len());
    rep
}
