// C25 — the interpreter is total: no panics, no internal errors.
use crate::common::*;
use crate::domains::*;
use crate::opspace::*;
use crate::progspace::*;
use crate::tree::{Enc, T, atom, cons, list_t, nil};
use clvmr::allocator::{Allocator, NodePtr};
use clvmr::chia_dialect::{ChiaDialect, ClvmFlags, MEMPOOL_MODE};
use clvmr::run_program::run_program;
use serde_json::json;

fn judge(o: &Outcome, canon: impl Fn() -> String, acc: &mut Acc, space: &str) {
    acc.inc("runs");
    if o.panicked {
        acc.violation(canon(), format!("[{space}] run_program panicked: {}", o.err));
    } else if o.internal_error() {
        acc.violation(canon(), format!("[{space}] run_program reported an internal error: {}", o.err));
    } else if o.ok {
        acc.inc("returned_ok");
    } else {
        acc.inc("returned_error");
        acc.outcome(fnv(o.err.as_bytes()));
    }
}

fn check_prog(prog: &T, env: &T, flagsets: &[ClvmFlags], faults: bool, acc: &mut Acc, space: &str) {
    let mut base: Option<(ClvmFlags, Outcome)> = None;
    with_loaded(prog, env, Enc::Inline, |l| {
        for f in flagsets {
            let o0 = l.run_flags(*f, 0);
            judge(&o0, || format!("prog={} env={} flags={:#x} budget=0", prog.hex(), env.hex(), f.bits()), acc, space);
            let mut budgets = vec![1u64, u64::MAX];
            if o0.ok {
                budgets.push(o0.cost);
                budgets.push(o0.cost.saturating_sub(1).max(1));
                if base.is_none() {
                    base = Some((*f, o0.clone()));
                }
            }
            for b in budgets {
                let o = l.run_flags(*f, b);
                judge(&o, || format!("prog={} env={} flags={:#x} budget={b}", prog.hex(), env.hex(), f.bits()), acc, space);
            }
        }
    });
    // allocation-fault enumeration: the k-th allocation fails, for every k, through each of the three caps.
    // Oracle without knowing the peak: sweeping the headroom upwards, every run before the first one that
    // reproduces the unconstrained outcome must fail with exactly the cap's error, and every later run must
    // reproduce the unconstrained outcome (monotone).
    if !faults {
        return;
    }
    let Some((flags, unconstrained)) = base else { return };
    let same = |o: &Outcome| o.ok && o.cost == unconstrained.cost && o.digest == unconstrained.digest;
    let (a0, p0, h0) = with_loaded(prog, env, Enc::Inline, |l| (l.a.atom_count(), l.a.pair_count(), l.a.heap_size()));
    for which in ["heap", "atoms", "pairs"] {
        let expected_err = match which { "heap" => "Out of Memory", "atoms" => "Too Many Atoms", _ => "too many pairs" };
        let mut reached = 0usize; // consecutive runs that reproduced the unconstrained outcome
        let mut d = 0usize;
        let final_need = match which { "heap" => unconstrained.counts.2 - h0, "atoms" => unconstrained.counts.0 - a0, _ => unconstrained.counts.1 - p0 };
        let sweep_cap = final_need + 3000;
        // every headroom when the need is small; for large needs (the sweep is quadratic in the need) every headroom
        // within 300 of zero and of the final need, and a 5 % geometric ladder in between and beyond
        let dense = final_need <= 6000;
        let next = |d: usize| -> usize {
            if dense || d < 300 || (d + 300 >= final_need && d <= final_need + 300) {
                d + 1
            } else {
                let n = d + (d / 20).max(1);
                if d < final_need.saturating_sub(300) { n.min(final_need - 300) } else { n }
            }
        };
        while d <= sweep_cap && reached < 3 {
            let r = std::panic::catch_unwind(std::panic::AssertUnwindSafe(|| {
                if which == "heap" {
                    with_loaded_limit(prog, env, Enc::Inline, h0 + d, |l| l.run_flags(flags, 0))
                } else {
                    with_loaded(prog, env, Enc::Inline, |l| {
                        let cap = 62_500_000usize;
                        if which == "atoms" {
                            let _ = l.a.add_ghost_atom(cap - l.a.atom_count() - d);
                        } else {
                            let _ = l.a.add_ghost_pair(cap - l.a.pair_count() - d);
                        }
                        let dd = ChiaDialect::new(flags);
                        run_raw(l.a, &dd, l.p, l.e, 0)
                    })
                }
            }));
            acc.inc("fault_runs");
            let canon = || format!("prog={} env={} flags={:#x} {which}_headroom={d}", prog.hex(), env.hex(), flags.bits());
            match r {
                Err(_) => acc.violation(canon(), format!("[{space}] harness could not load the program under this cap")),
                Ok(o) => {
                    judge(&o, canon, acc, space);
                    if o.counts.0 > 62_500_000 || o.counts.1 > 62_500_000 || (which == "heap" && o.counts.2 > h0 + d) {
                        acc.violation(canon(), format!("[{space}] a count exceeds its cap after the run: {:?}", o.counts));
                    }
                    if same(&o) {
                        reached += 1;
                    } else if reached > 0 {
                        acc.violation(canon(), format!("[{space}] not monotone: a smaller headroom already reproduced the unconstrained outcome, now {}", o.brief()));
                        reached = 0;
                    } else if !o.panicked && (o.ok || o.err != expected_err) {
                        acc.violation(canon(), format!("[{space}] the {which} cap is hit (unconstrained outcome not reached yet) but the run reports {} instead of '{expected_err}'", o.brief()));
                    } else {
                        acc.inc("cap_failures_exact");
                    }
                }
            }
            d = next(d);
        }
        if reached == 0 {
            acc.inc("sweep_cap_reached_without_success");
        }
    }
}

fn check_ops(ctx: &Ctx, rep: &mut Report) {
    // operators called directly: every opcode x argument lists of arity <= 2|3 over A12 + pair + big, proper and improper
    let mut alpha: Vec<T> = atoms_t(&a12());
    alpha.push(cons(atom(&[1]), atom(&[2])));
    alpha.push(atom(&big_atom(300)));
    alpha.push(atom(&g1_gen()));
    alpha.push(atom(&g2_gen()));
    let alpha_ser: Vec<Vec<u8>> = alpha.iter().map(|t| t.ser()).collect();
    let mut ops = all_single_byte_ops();
    ops.extend(multibyte_ops());
    ops.extend([vec![0u8], vec![0xff], vec![66]]);
    let max = ctx.pick(2usize, 3);
    let per = arg_lists_total(alpha.len() as u64, max);
    let flagsets = [ClvmFlags::empty(), ClvmFlags::NEW_COST_MODEL | ClvmFlags::MALACHITE | ClvmFlags::ENABLE_KECCAK_OPS_OUTSIDE_GUARD | ClvmFlags::ENABLE_SHA256_TREE | ClvmFlags::ENABLE_SECP_OPS, MEMPOOL_MODE | ClvmFlags::LIMITS];
    let total = ops.len() as u64 * per * 2;
    let acc = par_for(ctx, total, 64, |i| format!("op#{i}"), |i, acc| {
        let alpha: Vec<T> = alpha_ser.iter().map(|b| crate::tree::deser(b).unwrap().0).collect();
        let op = &ops[(i / (per * 2)) as usize];
        let mut args = nth_arg_list(&alpha, max, (i / 2) % per);
        if i % 2 == 1 {
            // improper terminator
            let mut items = vec![];
            let mut cur = args.clone();
            while let T::P(a, b) = &cur {
                items.push((**a).clone());
                let n = (**b).clone();
                cur = n;
            }
            args = list_t(&items, atom(&[0x05]));
        }
        for enc in [Enc::Inline, Enc::Heap] {
            for f in flagsets {
                for budget in [u64::MAX, 1 << 34, 1000, 1] {
                    let o = with_op(op, &args, enc, |a, o, n| call_op(a, o, n, f, budget));
                    acc.inc("op_calls");
                    if o.panicked {
                        acc.violation(format!("direct op={} args={} enc={enc:?} flags={:#x} budget={budget}", hx(op), args.hex(), f.bits()), format!("operator panicked: {}", o.err));
                    } else if o.internal_error() {
                        acc.violation(format!("direct op={} args={} enc={enc:?} flags={:#x} budget={budget}", hx(op), args.hex(), f.bits()), format!("operator reported an internal error: {}", o.err));
                    }
                }
            }
        }
    });
    rep.absorb(acc);
}

/// deep structures run in a child process with an ordinary 8 MiB stack
pub fn deep_child(which: &str, n: usize) -> i32 {
    let h = std::thread::Builder::new()
        .stack_size(8 << 20)
        .spawn({
            let which = which.to_string();
            move || {
                let mut a = Allocator::new();
                let q = a.new_atom(&[1]).unwrap();
                let (p, e) = match which.as_str() {
                    // (f (f (f ... (q . X)))) operand nesting
                    "operand-nesting" => {
                        let x = a.new_atom(b"x").unwrap();
                        let mut p = a.new_pair(q, x).unwrap();
                        let f = a.new_atom(&[32]).unwrap(); // not
                        for _ in 0..n {
                            let l = a.new_pair(p, NodePtr::NIL).unwrap();
                            p = a.new_pair(f, l).unwrap();
                        }
                        (p, NodePtr::NIL)
                    }
                    // (+ 1 1 1 ... ) one operator with n operands
                    "long-operand-list" => {
                        let one = a.new_pair(q, q).unwrap();
                        let mut l = NodePtr::NIL;
                        for _ in 0..n {
                            l = a.new_pair(one, l).unwrap();
                        }
                        let plus = a.new_atom(&[16]).unwrap();
                        (a.new_pair(plus, l).unwrap(), NodePtr::NIL)
                    }
                    // ((((...)))) : pairs in operator position
                    "nested-operator-pairs" => {
                        let mut p = NodePtr::NIL;
                        for _ in 0..n {
                            p = a.new_pair(p, NodePtr::NIL).unwrap();
                        }
                        (p, NodePtr::NIL)
                    }
                    // deep environment + long path
                    "deep-env-path" => {
                        let mut e = a.new_atom(b"leaf").unwrap();
                        for _ in 0..n {
                            e = a.new_pair(NodePtr::NIL, e).unwrap();
                        }
                        let mut path = vec![0xffu8; n / 8];
                        path.insert(0, 0x01);
                        (a.new_atom(&path).unwrap(), e)
                    }
                    // nested apply: (a (q . (a (q . ...) 1)) 1)
                    _ => {
                        let one = a.new_atom(&[1]).unwrap();
                        let mut p = a.new_pair(q, one).unwrap();
                        let ap = a.new_atom(&[2]).unwrap();
                        for _ in 0..n {
                            let qp = a.new_pair(q, p).unwrap();
                            let t = a.new_pair(one, NodePtr::NIL).unwrap();
                            let l = a.new_pair(qp, t).unwrap();
                            p = a.new_pair(ap, l).unwrap();
                        }
                        (p, NodePtr::NIL)
                    }
                };
                for flags in [ClvmFlags::empty(), MEMPOOL_MODE | ClvmFlags::ENABLE_GC] {
                    let d = ChiaDialect::new(flags);
                    match run_program(&mut a, &d, p, e, 0) {
                        Ok(_) => {}
                        Err(clvmr::error::EvalErr::InternalError(_, m)) => {
                            eprintln!("internal error: {m}");
                            return 3;
                        }
                        Err(_) => {}
                    }
                    // serialization of deep results must not overflow the stack either
                    let _ = clvmr::serde::node_to_bytes_limit(&a, p, 50_000_000);
                    let _ = clvmr::serde::node_to_bytes_backrefs_limit(&a, e, 50_000_000);
                }
                0
            }
        })
        .unwrap();
    match h.join() {
        Ok(c) => c,
        Err(_) => 4,
    }
}

pub fn run(ctx: &Ctx) -> Report {
    let mut rep = Report::new("C25", "exploration");
    let all_bits = ClvmFlags::all();
    let flagsets: Vec<ClvmFlags> = vec![ClvmFlags::empty(), MEMPOOL_MODE, ClvmFlags::ENABLE_GC, ClvmFlags::NEW_COST_MODEL, all_bits];
    let ops = { let mut o = all_single_byte_ops(); o.extend(multibyte_ops()); o };
    let spaces: Vec<(ProgSpace, bool)> = vec![
        (p1("P1", ops.clone(), a12(), vec![vec![2u8], vec![5], vec![11]], ctx.pick(2, 3)), false),
        (p1b(ops.clone(), 2), false),
        (p_raw(ops, a6()), false),
        (p2(classic_ops(), ctx.pick(vec![vec![1], vec![0x80]], vec![vec![], vec![1], vec![0x80]])), false),
        (p3(ctx.pick(4, 5), 2), false),
        (p4(ctx.pick(12, 40), false), true),
        (p5_full(), false),
        (p_guard_args(), false),
        (p_guard_then_op(), false),
        (p5_thin(), true),
        (p_gc(), true),
        (p_vectors(ctx.pick(2, 8)), false),
        (p_vector_mutations(), false),
        (p_limits(!ctx.quick()), false),
        (p_paths(40), false),
    ];
    let seed = ctx.seed;
    let mut notes = vec![];
    for (sp, faults) in &spaces {
        let t_space = std::time::Instant::now();
        let acc = par_for(ctx, sp.total, 16, |i| { let (p, e) = sp.at(i); format!("prog={} env={}", p.hex(), e.hex()) }, |i, acc| {
            let (p, e) = sp.at(i);
            check_prog(&p, &e, &flagsets, *faults, acc, &sp.name);
            acc.inc("programs");
            acc.maybe_sample(sample_key(seed, i ^ fnv(sp.name.as_bytes())), || json!({"space": sp.name, "prog": p.hex()}));
        });
        notes.push(json!({"space": sp.name, "wall_s": t_space.elapsed().as_secs_f64(), "programs": sp.total, "allocation_fault_enumeration": faults}));
        rep.absorb(acc);
    }
    rep.note("spaces", json!(notes));
    check_ops(ctx, &mut rep);
    // deep structures in a child process
    let exe = std::env::current_exe().unwrap();
    let mut deep = vec![];
    for fam in ["operand-nesting", "long-operand-list", "nested-operator-pairs", "deep-env-path", "nested-apply"] {
        for n in ctx.pick(vec![1000usize, 100_000], vec![1000, 100_000, 1_000_000]) {
            let st = std::process::Command::new(&exe).args(["C25DEEP", fam, &n.to_string()]).status();
            rep.acc.inc("deep_child_runs");
            let code = st.as_ref().ok().and_then(|s| s.code());
            deep.push(json!({"family": fam, "n": n, "exit": format!("{:?}", st.as_ref().map(|s| s.to_string()))}));
            if code != Some(0) {
                rep.acc.violation(format!("deep family={fam} n={n}"), format!("child process ended with {:?} (stack overflow / abort / internal error)", st.map(|s| s.to_string())));
            }
        }
    }
    rep.note("deep_families", json!(deep));
    rep.evaluations = rep.acc.get("runs") + rep.acc.get("op_calls") + rep.acc.get("deep_child_runs");
    rep.nontrivial = rep.acc.get("returned_error") + rep.acc.get("returned_ok");
    rep.states = rep.acc.get("programs");
    rep.transitions = rep.evaluations;
    rep.traces = rep.evaluations;
    rep.rule = "every program of 12 spaces (all opcodes over constants / big operands / raw improper forms, compositions, every small tree as a program, families, guards, GC candidates, repository vectors, limit-size operands, deep paths) x {no flags, MEMPOOL_MODE, ENABLE_GC, NEW_COST_MODEL, every defined flag bit} x budgets {0, 1, C-1, C, u64::MAX} through run_program under catch_unwind in a build with overflow checks and debug assertions; for the allocation-heavy spaces additionally EVERY heap limit from the loaded size to the final size+1 and every atom/pair-cap headroom 0..need+1 (the k-th allocation fails, all k; for needs above 6000 every headroom within 300 of zero and of the need and a 5 % geometric ladder between); every opcode called directly with every argument list of arity <=2|3 over constants, a pair, a 300-byte atom and valid G1/G2 points, proper and improper, in inline and heap representation, 3 flag sets x 4 budgets; deep structures (10^3..10^6 nested operands / list length / pairs in operator position / environment depth / nested applies) in a child process with an 8 MiB stack. Oracle: no panic, abort or stack overflow, never EvalErr::InternalError; allocator caps reported with the matching error. Non-trivial = runs that returned (Ok or a non-internal error).".into();
    rep.assumptions.push("the build uses opt-level 2 with overflow-checks and debug-assertions on, so arithmetic wrap-around and debug_assert! failures surface as panics".into());
    rep
}
