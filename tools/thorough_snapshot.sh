#!/bin/bash
# thorough_snapshot.sh <dir> <IDs...> — run thorough tiers against a frozen copy of /repo HEAD and of the committed
# /verif, so that seeded changes applied to /repo meanwhile cannot leak into the run. Results are NOT evidence
# (evidence comes only from ./check in /verif against /repo); this only validates that the thorough tiers pass.
D=$1; shift
rm -rf "$D"; mkdir -p "$D"
git -C /repo worktree prune
git -C /repo worktree add --detach "$D/repo" HEAD -q || exit 2
git clone -q /verif "$D/verif" || exit 2
cd "$D/verif"
grep -rl '/repo' check tools/setup.sh harness/Cargo.toml pyref/*.py harness/src | xargs sed -i "s#/repo#$D/repo#g"
cp "$D/repo/Cargo.lock" harness/Cargo.lock
for id in "$@"; do
  echo "=== $id"
  /usr/bin/time -f "%e s %M KB" ./check $id --tier thorough 2>&1 | cut -c1-220
done
echo "=== DONE"
