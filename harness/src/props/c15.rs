// C15 — classic serialization round-trips and is canonical.
use crate::common::*;
use crate::domains::*;
use crate::tree::{self, Builder, Enc, SHARINGS, T, TreeSpace, atom, cons};
use clvmr::allocator::{Allocator, NodePtr};
use clvmr::serde::{
    ObjectCache, is_canonical_serialization, node_from_bytes, node_to_bytes, node_to_bytes_limit,
    serialized_length, serialized_length_atom, serialized_length_from_bytes,
    serialized_length_from_bytes_trusted, write_atom::write_atom,
};
use serde_json::json;

fn check_node(a: &mut Allocator, node: NodePtr, t_ser: &[u8], canon: &str, acc: &mut Acc, limit: usize) {
    let bytes = match node_to_bytes_limit(a, node, limit) {
        Ok(b) => b,
        Err(e) => {
            acc.violation(canon.to_string(), format!("node_to_bytes failed: {e}"));
            return;
        }
    };
    if bytes != t_ser {
        acc.violation(canon.to_string(), format!("node_to_bytes {} != reference encoder {}", hx(&bytes[..bytes.len().min(64)]), hx(&t_ser[..t_ser.len().min(64)])));
        return;
    }
    let back = match node_from_bytes(a, &bytes) {
        Ok(n) => n,
        Err(e) => {
            acc.violation(canon.to_string(), format!("node_from_bytes failed on own output: {e}"));
            return;
        }
    };
    // compare by re-serialising with the reference encoder (handles sharing)
    if tree::read_ser(a, back) != t_ser {
        acc.violation(canon.to_string(), "decode(encode(t)) != t".into());
    }
    if !is_canonical_serialization(&bytes) {
        acc.violation(canon.to_string(), "is_canonical_serialization false for serializer output".into());
    }
    let n = bytes.len() as u64;
    match serialized_length_from_bytes_trusted(&bytes) {
        Ok(l) if l == n => {}
        o => acc.violation(canon.to_string(), format!("serialized_length_from_bytes_trusted {o:?} != {n}")),
    }
    match serialized_length_from_bytes(&bytes) {
        Ok(l) if l == n => {}
        o => acc.violation(canon.to_string(), format!("serialized_length_from_bytes {o:?} != {n}")),
    }
    let mut oc = ObjectCache::new(serialized_length);
    match oc.get_or_calculate(a, &node, None) {
        Some(l) if *l == n => {}
        o => acc.violation(canon.to_string(), format!("ObjectCache serialized_length {o:?} != {n}")),
    }
    acc.inc("roundtrips");
}

/// io::Write sink that counts and keeps only the first bytes
struct HeadWriter {
    head: Vec<u8>,
    count: u64,
}
impl std::io::Write for HeadWriter {
    fn write(&mut self, b: &[u8]) -> std::io::Result<usize> {
        let room = 16usize.saturating_sub(self.head.len());
        self.head.extend_from_slice(&b[..b.len().min(room)]);
        self.count += b.len() as u64;
        Ok(b.len())
    }
    fn flush(&mut self) -> std::io::Result<()> {
        Ok(())
    }
}

pub fn run(ctx: &Ctx) -> Report {
    let mut rep = Report::new("C15", "model_checking");
    let seed = ctx.seed;
    // 1. TREES(k, A6) x sharing modes x {inline, heap} encodings
    let k = ctx.pick(4, 5);
    let ts = TreeSpace::new(k, &atoms_t(&a6()));
    let acc = par_for(ctx, ts.total, 256, |i| format!("tree#{i}"), |i, acc| {
        thread_local! { static A: std::cell::RefCell<Allocator> = std::cell::RefCell::new(Allocator::new()); }
        let t = ts.get(i);
        let s = t.ser();
        A.with(|a| {
            let a = &mut a.borrow_mut();
            for sh in SHARINGS {
                for enc in [Enc::Inline, Enc::Heap, Enc::View] {
                    let cp = a.checkpoint();
                    let n = Builder::new(sh, enc).build(a, &t);
                    check_node(a, n, &s, &format!("tree {} sharing={sh:?} enc={enc:?}", hx(&s)), acc, 2_000_000);
                    a.restore_checkpoint(&cp);
                    acc.inc("cases");
                }
            }
        });
        acc.maybe_sample(sample_key(seed, i), || json!({"tree": hx(&s)}));
    });
    rep.absorb(acc);
    // 2. atoms at every length-prefix boundary, alone and as children
    let mut sizes: Vec<usize> = vec![0, 1, 2, 0x3e, 0x3f, 0x40, 0x41, 0x1ffe, 0x1fff, 0x2000, 0x2001, 0xffffe, 0xfffff, 0x100000, 0x100001];
    sizes.extend([1_999_990usize, 1_999_995, 1_999_996]);
    // the 4-byte / 5-byte prefix boundary (128 MiB) and the next power of two
    sizes.extend([0x7ff_ffffusize, 0x800_0000, 0x800_0001]);
    if !ctx.quick() {
        sizes.extend([0xfff_ffffusize, 0x1000_0000]);
    }
    let mut acc = Acc::default();
    for &sz in &sizes {
        for first in [0x00u8, 0x01, 0x7f, 0x80, 0xff] {
            if sz > 4_000_000 && first != 0x80 {
                continue;
            }
            let mut b = vec![0x33u8; sz];
            if sz > 0 {
                b[0] = first;
            }
            let at = atom(&b);
            for shape in 0..3 {
                if sz > 4_000_000 && shape != 1 {
                    continue;
                }
                let t: T = match shape {
                    0 => at.clone(),
                    1 => cons(at.clone(), atom(&[])),
                    _ => cons(atom(&[1]), cons(at.clone(), at.clone())),
                };
                let s = t.ser();
                let mut a = Allocator::new();
                let n = Builder::new(crate::tree::Sharing::Atoms, Enc::Inline).build(&mut a, &t);
                let canon = format!("boundary atom len={sz} first={first:02x} shape={shape}");
                if s.len() <= 2_000_000 {
                    check_node(&mut a, n, &s, &canon, &mut acc, 2_000_000);
                    // node_to_bytes (default limit) too
                    match node_to_bytes(&a, n) {
                        Ok(b) if b == s => {}
                        o => acc.violation(canon.clone(), format!("node_to_bytes: {:?}", o.map(|b| b.len()))),
                    }
                } else {
                    // must fail (size limit), never truncate silently
                    match node_to_bytes(&a, n) {
                        Err(_) => acc.inc("over_limit_rejected"),
                        Ok(b) => acc.violation(canon.clone(), format!("node_to_bytes returned {} bytes for a {}-byte serialization", b.len(), s.len())),
                    }
                    check_node(&mut a, n, &s, &canon, &mut acc, usize::MAX);
                }
                // serialized_length_atom
                if shape == 0 && serialized_length_atom(&b) as usize != s.len() {
                    acc.violation(canon.clone(), "serialized_length_atom differs".into());
                }
                acc.inc("cases");
                acc.inc("boundary_cases");
            }
        }
    }
    // 3. list / deep / doubling families
    let nmax = ctx.pick(300usize, 3000);
    for n in [1usize, 2, 3, 10, 100, nmax] {
        for fam in 0..3 {
            let item = atom(&[0x80, n as u8]);
            let mut t = atom(&[]);
            for i in 0..n {
                t = match fam {
                    0 => cons(item.clone(), t),                 // right list
                    1 => cons(t, atom(&[(i % 200) as u8, 0x81])), // left-deep
                    _ => cons(t.clone(), t),                    // doubling (n capped below)
                };
                if fam == 2 && i >= 12 {
                    break;
                }
            }
            let s = t.ser();
            let mut a = Allocator::new();
            for sh in SHARINGS {
                if fam == 2 && sh == crate::tree::Sharing::Fresh {
                    continue;
                }
                let node = Builder::new(sh, Enc::Inline).build(&mut a, &t);
                check_node(&mut a, node, &s, &format!("family {fam} n={n} sharing={sh:?}"), &mut acc, 2_000_000);
                acc.inc("cases");
                acc.inc("family_cases");
            }
        }
    }
    // 4. the prefix encoder above the serializer's size limit, through write_atom with a
    //    counting writer over a lazily zeroed (never touched) slice
    {
        let big_sizes: Vec<u64> = if ctx.quick() {
            vec![0x7ff_ffff, 0x800_0000, 0x800_0001]
        } else {
            vec![0x7ff_ffff, 0x800_0000, 0x800_0001, 0xffff_ffff, 0x1_0000_0000, 0x3_ffff_ffff, 0x4_0000_0000]
        };
        for sz in big_sizes {
            // vec![0; n] uses calloc: pages are not touched until written/read
            let buf: Vec<u8> = vec![0u8; sz as usize];
            let mut w = HeadWriter { head: vec![], count: 0 };
            let r = write_atom(&mut w, &buf);
            let mut exp = vec![];
            let ok = sz < 0x4_0000_0000;
            if ok {
                tree::ser_atom_prefix(sz, Some(0), &mut exp);
            }
            let canon = format!("write_atom len={sz:#x}");
            match (r, ok) {
                (Ok(()), true) => {
                    let plen = exp.len();
                    if w.head[..plen.min(w.head.len())] != exp[..] || w.count != sz + plen as u64 {
                        acc.violation(canon.clone(), format!("prefix {} count {} expected prefix {} count {}", hx(&w.head), w.count, hx(&exp), sz + plen as u64));
                    }
                    // length functions on the same buffer: build prefix+zeros lazily is impossible without touching;
                    // serialized_length_atom only looks at len and first byte
                    if sz <= u32::MAX as u64 - 5 && serialized_length_atom(&buf) as u64 != sz + plen as u64 {
                        acc.violation(canon.clone(), format!("serialized_length_atom {} != {}", serialized_length_atom(&buf), sz + plen as u64));
                    }
                }
                (Err(_), false) => acc.inc("too_large_rejected"),
                (r, _) => acc.violation(canon.clone(), format!("write_atom returned {r:?}, expected success={ok}")),
            }
            acc.inc("cases");
            acc.inc("huge_prefix_cases");
        }
    }
    rep.absorb(acc);
    rep.evaluations = rep.acc.get("cases");
    rep.nontrivial = rep.acc.get("roundtrips");
    rep.states = rep.evaluations;
    rep.transitions = rep.acc.get("roundtrips") * 6;
    rep.traces = rep.acc.get("roundtrips");
    rep.rule = format!("every tree of TREES({k},A6) in 3 sharing modes x 3 atom encodings; atoms of every length-prefix boundary size {sizes:?} x 5 first bytes x 3 positions; list/left-deep/doubling families up to n={nmax}; write_atom prefix for sizes up to 2^34. Oracle: bytes == independent encoder, decode(bytes) == tree, is_canonical, four length functions == byte count. Non-trivial = cases whose full round trip was compared.");
    rep.assumptions.push("reference encoder/decoder in harness/src/tree.rs".into());
    rep.note("converse_direction", json!("'any input that decodes and is judged canonical re-serializes to exactly the consumed bytes' is decided on the byte-string space of C16 (is_canonical <=> consumed==len && reserialization==input)"));
    rep
}
