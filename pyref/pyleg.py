"""Python leg of the checks (wheel conformance, from-scratch crypto). Filled in per property."""


def run(pid, tier, seed, res, bins, root, target):
    handler = HANDLERS.get(pid)
    if handler is None:
        res.setdefault("notes", {})["python_leg"] = "not built for this property"
        return
    handler(tier, seed, res, bins, root, target)


HANDLERS = {}
