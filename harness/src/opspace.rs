// Engine B — operator x argument list spaces, calling ChiaDialect::op directly.
use crate::common::*;
use crate::progspace::node_digest;
use crate::tree::{Builder, Enc, Sharing, T, atom, cons, list, nil};
use clvmr::allocator::{Allocator, NodePtr};
use clvmr::chia_dialect::{ChiaDialect, ClvmFlags};
use clvmr::dialect::{Dialect, OperatorSet};

#[derive(Clone, Debug, PartialEq, Eq)]
pub struct OpOutcome {
    pub ok: bool,
    pub cost: u64,
    pub digest: u128,
    pub err: String,
    pub panicked: bool,
}
impl OpOutcome {
    pub fn brief(&self) -> String {
        if self.panicked {
            format!("PANIC {}", self.err)
        } else if self.ok {
            format!("Ok(cost={}, result#{:032x})", self.cost, self.digest)
        } else {
            format!("Err({})", self.err)
        }
    }
    pub fn internal_error(&self) -> bool {
        !self.ok && self.err.starts_with("Internal Error")
    }
}

pub fn call_op(a: &mut Allocator, op: NodePtr, args: NodePtr, flags: ClvmFlags, max_cost: u64) -> OpOutcome {
    let d = ChiaDialect::new(flags);
    let r = std::panic::catch_unwind(std::panic::AssertUnwindSafe(|| d.op(a, op, args, max_cost, OperatorSet::Default)));
    match r {
        Ok(Ok(red)) => OpOutcome { ok: true, cost: red.0, digest: node_digest(a, red.1), err: String::new(), panicked: false },
        Ok(Err(e)) => OpOutcome { ok: false, cost: 0, digest: 0, err: e.to_string(), panicked: false },
        Err(p) => OpOutcome { ok: false, cost: 0, digest: 0, err: panic_msg(p), panicked: true },
    }
}

/// build (op, args) in a fresh forked allocator and call f with it
pub fn with_op<R>(op: &[u8], args: &T, enc: Enc, f: impl FnOnce(&mut Allocator, NodePtr, NodePtr) -> R) -> R {
    let mut a = crate::progspace::fresh_allocator(u32::MAX as usize);
    let o = a.new_atom(op).unwrap();
    let n = Builder::new(Sharing::Fresh, enc).build(&mut a, args);
    f(&mut a, o, n)
}

/// all argument lists of arity 0..=max over `alpha` (index -> list); terminator nil
pub fn arg_lists_total(k: u64, max: usize) -> u64 {
    (0..=max).map(|a| k.pow(a as u32)).sum()
}
pub fn nth_arg_list(alpha: &[T], max: usize, mut i: u64) -> T {
    let k = alpha.len() as u64;
    let mut arity = 0;
    loop {
        let c = k.pow(arity as u32);
        if i < c {
            break;
        }
        i -= c;
        arity += 1;
        assert!(arity <= max);
    }
    let mut items = vec![];
    for _ in 0..arity {
        items.push(alpha[(i % k) as usize].clone());
        i /= k;
    }
    list(&items)
}

/// the integer alphabet of C06 (and C10): boundary values in canonical, zero-padded and ff-padded forms, big operands, a pair
pub fn ints(thorough: bool) -> Vec<T> {
    let mut v: Vec<Vec<u8>> = crate::domains::a12();
    if thorough {
        v = crate::domains::a24();
    } else {
        v.extend([vec![0x7f; 8], { let mut x = vec![0x00]; x.extend([0xff; 8]); x }, (0..33).map(|i| (i * 5 + 0x81) as u8).collect()]);
    }
    for n in [3i128, 5, 7, 11, 101] {
        for s in [1i128, -1] {
            let b = crate::tree::int_bytes(s * n);
            v.push(b.clone());
            if thorough || n == 7 {
                let mut p = vec![if s > 0 { 0x00 } else { 0xff }];
                p.extend(&b);
                v.push(p);
            }
        }
    }
    v.push(vec![0x00, 0x00, 0x00, 0x00, 0x00, 0x00, 0x00, 0x00, 0x80]); // eight zero bytes then 0x80
    v.push(vec![0xff, 0xff, 0xff, 0xff, 0xff, 0xff, 0xff, 0xff, 0x7f]);
    for n in if thorough { vec![257usize, 300, 1025, 2049, 2100] } else { vec![257, 2049] } {
        v.push(crate::domains::big_atom(n));
        let mut neg = crate::domains::big_atom(n);
        neg[0] = 0x9c;
        v.push(neg);
    }
    let mut out: Vec<T> = v.iter().map(|b| atom(b)).collect();
    out.push(cons(atom(&[1]), nil()));
    out
}
