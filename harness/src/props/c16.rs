// C16 — classic decoders are total and agree with each other.
use crate::allocprobe;
use crate::common::*;
use crate::domains::*;
use crate::refsha;
use crate::tree::{self, T, TreeSpace};
use clvmr::allocator::Allocator;
use clvmr::serde::{
    ParsedTriple, is_canonical_serialization, node_from_stream, parse_triples, tree_hash_from_stream,
};
use serde_json::json;
use std::io::Cursor;

/// check that the triples describe tree `t` serialized at the start of `buf`
fn triples_describe(tr: &[ParsedTriple], buf: &[u8], t: &T) -> Result<(), String> {
    // returns next index
    fn go(tr: &[ParsedTriple], buf: &[u8], idx: usize, t: &T, depth: usize) -> Result<(usize, u64, u64), String> {
        if depth > 4000 {
            return Err("too deep".into());
        }
        let e = tr.get(idx).ok_or("triple index out of range")?;
        match (e, t) {
            (ParsedTriple::Atom { start, end, atom_offset }, T::A(b)) => {
                let s = *start as usize + *atom_offset as usize;
                let got = buf.get(s..*end as usize).ok_or("atom range out of buffer")?;
                if got != &b[..] {
                    return Err(format!("atom bytes differ at triple {idx}"));
                }
                Ok((idx + 1, *start, *end))
            }
            (ParsedTriple::Pair { start, end, right_index }, T::P(l, r)) => {
                if buf[*start as usize] != 0xff {
                    return Err("pair start is not 0xff".into());
                }
                let (ni, ls, le) = go(tr, buf, idx + 1, l, depth + 1)?;
                if ls != *start + 1 {
                    return Err("left child does not start after marker".into());
                }
                if *right_index as usize != ni {
                    return Err(format!("right_index {} != {}", right_index, ni));
                }
                let (ni2, rs, re) = go(tr, buf, ni, r, depth + 1)?;
                if rs != le || re != *end {
                    return Err("child ranges do not tile the pair range".into());
                }
                Ok((ni2, *start, *end))
            }
            _ => Err(format!("node kind differs at triple {idx}")),
        }
    }
    let (n, s, _e) = go(tr, buf, 0, t, 0)?;
    if n != tr.len() {
        return Err("extra triples".into());
    }
    if s != 0 {
        return Err("root does not start at 0".into());
    }
    Ok(())
}

pub fn check_input(a: &mut Allocator, s: &[u8], acc: &mut Acc, full_hash: bool) {
    check_input_sized(a, s, acc, full_hash, 65536 + 256 * s.len() as u64)
}

pub fn check_input_sized(a: &mut Allocator, s: &[u8], acc: &mut Acc, full_hash: bool, bound: u64) {
    let canon = || if s.len() <= 64 { format!("bytes {}", hx(s)) } else { format!("bytes {}.. ({} bytes, fnv {:016x})", hx(&s[..16]), s.len(), fnv(s)) };
    let reference = tree::deser(s);
    // 1. node_from_bytes (via stream to observe the cursor)
    let cp = a.checkpoint();
    allocprobe::reset();
    let mut c1 = Cursor::new(s);
    let r1 = node_from_stream(a, &mut c1);
    let p1 = c1.position();
    // 2. parse_triples
    let mut c2 = Cursor::new(s);
    let r2 = parse_triples(&mut c2, true);
    let p2 = c2.position();
    // 2b. parse_triples without hashes (a separate skip path): must agree with the hashing run
    let mut c2b = Cursor::new(s);
    let r2b = parse_triples(&mut c2b, false);
    let p2b = c2b.position();
    match (&r2, &r2b) {
        (Ok((t1, _)), Ok((t2, h2))) => {
            if t1 != t2 || h2.is_some() || p2 != p2b {
                acc.violation(canon(), "parse_triples(hashes=false) returns different triples / cursor than parse_triples(hashes=true)".into());
            }
        }
        (Err(_), Err(_)) => {}
        _ => acc.violation(canon(), format!("parse_triples acceptance depends on calculate_tree_hashes: true -> {:?}, false -> {:?}", r2.as_ref().map(|_| p2).map_err(|e| e.to_string()), r2b.as_ref().map(|_| p2b).map_err(|e| e.to_string()))),
    }
    // 2c. short-read deviation: parse_triples takes any `Read`; a reader answering 1 byte per read must give the same
    //     triples, hashes and consumption
    {
        let mut cr = ChunkReader::new(s, 1);
        let r2c = parse_triples(&mut cr, true);
        match (&r2, &r2c) {
            (Ok(x), Ok(y)) => {
                if x != y || cr.pos as u64 != p2 {
                    acc.violation(canon(), format!("parse_triples through a reader answering 1 byte per read differs (consumed {} vs {p2})", cr.pos));
                }
            }
            (Err(_), Err(_)) => {}
            _ => acc.violation(canon(), format!("parse_triples acceptance depends on how reads are split: whole {:?}, 1-byte reads {:?}", r2.as_ref().map(|_| p2).map_err(|e| e.to_string()), r2c.as_ref().map(|_| cr.pos).map_err(|e| e.to_string()))),
        }
    }
    // 2d. start from a non-initial state: the same object behind 3 foreign bytes, cursor positioned at 3 (the
    //     second object of a stream): outcome and consumption must equal the run from position 0
    if s.len() <= 4096 {
        let mut shifted = vec![0x84u8, 0xff, 0x01];
        shifted.extend_from_slice(s);
        let mut d1 = Cursor::new(&shifted[..]);
        d1.set_position(3);
        let q1 = node_from_stream(a, &mut d1);
        let mut d2 = Cursor::new(&shifted[..]);
        d2.set_position(3);
        let q2 = parse_triples(&mut d2, true);
        let mut d3 = Cursor::new(&shifted[..]);
        d3.set_position(3);
        let q3 = tree_hash_from_stream(&mut d3);
        let same1 = match (&r1, &q1) {
            (Ok(x), Ok(y)) => tree::read_ser(a, *x) == tree::read_ser(a, *y) && d1.position() == p1 + 3,
            (Err(_), Err(_)) => true,
            _ => false,
        };
        let same2 = match (&r2, &q2) {
            (Ok(x), Ok(y)) => x == y && d2.position() == p2 + 3,
            (Err(_), Err(_)) => true,
            _ => false,
        };
        let mut c3 = Cursor::new(s);
        let r3 = tree_hash_from_stream(&mut c3);
        let same3 = match (&r3, &q3) {
            (Ok(x), Ok(y)) => x == y && d3.position() == c3.position() + 3,
            (Err(_), Err(_)) => true,
            _ => false,
        };
        if !(same1 && same2 && same3) {
            acc.violation(canon(), format!("decoding the same object from cursor position 3 differs from position 0 (node_from_stream same={same1}, parse_triples same={same2}, tree_hash_from_stream same={same3})"));
        }
        acc.inc("offset_cursor_cases");
    }
    // 3. tree_hash_from_stream
    let mut c3 = Cursor::new(s);
    let r3 = tree_hash_from_stream(&mut c3);
    let p3 = c3.position();
    let canonical = is_canonical_serialization(s);
    let (bytes, maxreq) = allocprobe::read();
    // over-allocation oracle: bounded by a linear function of the input length
    if bytes > bound || maxreq > bound {
        acc.violation(canon(), format!("decoders requested {bytes} bytes (largest request {maxreq}) for a {}-byte input (bound {bound})", s.len()));
    }
    acc.max("max_alloc_bytes_per_input", bytes);
    match (&reference, &r1, &r2, &r3) {
        (None, Err(_), Err(_), Err(_)) => {
            acc.inc("rejected_by_all");
            // is_canonical_serialization must not accept what no decoder accepts,
            // unless the input is a back-reference stream (0xfe), which the
            // classic decoders do not understand.
            if canonical && !s.contains(&0xfe) {
                acc.violation(canon(), "is_canonical_serialization true for an input every classic decoder rejects".into());
            }
        }
        (Some((t, n)), Ok(node), Ok((triples, Some(hashes))), Ok(h3)) => {
            acc.inc("accepted_by_all");
            let n = *n as u64;
            if p1 != n || p3 != n {
                acc.violation(canon(), format!("consumed differs: reference {n}, node_from_stream {p1}, tree_hash_from_stream {p3}, parse_triples cursor {p2}"));
            }
            let end0 = match &triples[0] {
                ParsedTriple::Atom { end, .. } | ParsedTriple::Pair { end, .. } => *end,
            };
            if end0 != n || p2 != n {
                acc.violation(canon(), format!("parse_triples root end {end0} / cursor {p2}, reference consumed {n}"));
            }
            let got = tree::read(a, *node);
            if &got != t {
                acc.violation(canon(), format!("node_from_bytes tree {} != reference {}", got.hex(), t.hex()));
            }
            if let Err(e) = triples_describe(triples, s, t) {
                acc.violation(canon(), format!("parse_triples: {e}"));
            }
            if hashes.len() != triples.len() {
                acc.violation(canon(), "hash count != triple count".into());
            }
            if hashes[0] != *h3 {
                acc.violation(canon(), "parse_triples hash[0] != tree_hash_from_stream".into());
            }
            if full_hash {
                let rh = refsha::tree_hash(t);
                if rh != *h3 {
                    acc.violation(canon(), format!("tree hash {} != recursive definition {}", hx(h3), hx(&rh)));
                }
                acc.inc("hash_checked_against_reference");
            }
            let expect_canon = n as usize == s.len() && t.ser() == s;
            if canonical != expect_canon {
                acc.violation(canon(), format!("is_canonical_serialization={canonical}, expected {expect_canon} (consumed {n} of {}, reserialization {})", s.len(), hx(&t.ser())));
            }
            if canonical {
                acc.inc("canonical");
            } else {
                acc.inc("accepted_noncanonical");
            }
            acc.outcome(fnv(&t.ser()));
        }
        _ => {
            acc.violation(
                canon(),
                format!(
                    "acceptance differs: reference {:?}, node_from_bytes {:?}, parse_triples {:?}, tree_hash_from_stream {:?}",
                    reference.as_ref().map(|x| x.1),
                    r1.as_ref().map(|_| p1).map_err(|e| e.to_string()),
                    r2.as_ref().map(|_| p2).map_err(|e| e.to_string()),
                    r3.as_ref().map(|_| p3).map_err(|e| e.to_string())
                ),
            );
        }
    }
    a.restore_checkpoint(&cp);
}

pub fn run(ctx: &Ctx) -> Report {
    let mut rep = Report::new("C16", "model_checking");
    let seed = ctx.seed;
    // space 1: BYTES(3)
    let all = all_bytes();
    let n1 = count_bytes_upto(256, 3);
    let acc = par_for(ctx, n1, 1 << 14, |i| format!("BYTES3#{i}"), |i, acc| {
        thread_local! { static A: std::cell::RefCell<Allocator> = std::cell::RefCell::new(Allocator::new()); }
        let mut s = Vec::new();
        nth_bytes_upto(&all, 3, i, &mut s);
        A.with(|a| check_input(&mut a.borrow_mut(), &s, acc, i % 16 == 0));
        acc.maybe_sample(sample_key(seed, i), || json!({"bytes": hx(&s)}));
    });
    rep.evaluations += n1;
    rep.absorb(acc);
    // space 2: BYTES(n, Sigma-classic)
    let n = ctx.pick(6, 7);
    let n2 = count_bytes_upto(SIGMA_CLASSIC.len() as u64, n);
    let acc = par_for(ctx, n2, 1 << 14, |i| format!("SIGMA{n}#{i}"), |i, acc| {
        thread_local! { static A: std::cell::RefCell<Allocator> = std::cell::RefCell::new(Allocator::new()); }
        let mut s = Vec::new();
        nth_bytes_upto(&SIGMA_CLASSIC, n, i, &mut s);
        A.with(|a| check_input(&mut a.borrow_mut(), &s, acc, i % 16 == 0));
    });
    rep.evaluations += n2;
    rep.absorb(acc);
    // space 3 (thorough): BYTES(4, 64-byte alphabet)
    if !ctx.quick() {
        let mut alpha: Vec<u8> = SIGMA_CLASSIC.to_vec();
        for b in 0..=255u8 {
            if alpha.len() < 64 && !alpha.contains(&b) && (b % 5 == 3 || b > 0xf0) {
                alpha.push(b);
            }
        }
        alpha.sort();
        let n3 = (alpha.len() as u64).pow(4);
        let acc = par_for(ctx, n3, 1 << 14, |i| format!("A64^4#{i}"), |i, acc| {
            thread_local! { static A: std::cell::RefCell<Allocator> = std::cell::RefCell::new(Allocator::new()); }
            let mut s = Vec::new();
            nth_bytes(&alpha, 4, i, &mut s);
            A.with(|a| check_input(&mut a.borrow_mut(), &s, acc, i % 64 == 0));
        });
        rep.evaluations += n3;
        rep.absorb(acc);
        rep.note("alphabet64", json!(hx(&alpha)));
    }
    // space 4: truncations and one-byte corruptions of every TREES(4, A6) serialization
    let ts = TreeSpace::new(4, &atoms_t(&a6()));
    let corrupt: Vec<u8> = if ctx.quick() { SIGMA_CLASSIC.to_vec() } else { all_bytes() };
    let acc = par_for(ctx, ts.total, 64, |i| format!("corrupt tree#{i}"), |i, acc| {
        thread_local! { static A: std::cell::RefCell<Allocator> = std::cell::RefCell::new(Allocator::new()); }
        let t = ts.get(i);
        let s = t.ser();
        A.with(|a| {
            let a = &mut a.borrow_mut();
            for cut in 0..s.len() {
                check_input(a, &s[..cut], acc, false);
                acc.inc("truncations");
            }
            for pos in 0..s.len() {
                for c in &corrupt {
                    if *c != s[pos] {
                        let mut m = s.clone();
                        m[pos] = *c;
                        check_input(a, &m, acc, false);
                        acc.inc("corruptions");
                    }
                }
            }
        });
    });
    rep.absorb(acc);
    rep.evaluations += rep.acc.get("truncations") + rep.acc.get("corruptions");
    // space 5: large declared sizes with short bodies (over-allocation probes)
    let mut acc = Acc::default();
    {
        let mut a = Allocator::new();
        let mut probes: Vec<Vec<u8>> = vec![];
        for prefix in [
            vec![0xbf], vec![0xc0, 0x40], vec![0xdf, 0xff], vec![0xe0, 0x20, 0x00], vec![0xef, 0xff, 0xff],
            vec![0xf0, 0x10, 0x00, 0x00], vec![0xf7, 0xff, 0xff, 0xff], vec![0xf8, 0x08, 0x00, 0x00, 0x00],
            vec![0xfb, 0xff, 0xff, 0xff, 0xff], vec![0xfc, 0x00, 0x03, 0xff, 0xff, 0xff], vec![0xfc, 0x00, 0x04, 0x00, 0x00, 0x00],
            vec![0xfc, 0x00, 0x00, 0x00, 0x00, 0x01], vec![0xfd, 0, 0, 0, 0, 0, 1], vec![0xfe, 0, 0, 0, 0, 0, 0, 1],
        ] {
            for body in [0usize, 1, 2, 63, 64, 65] {
                let mut s = prefix.clone();
                s.extend(std::iter::repeat(0x41).take(body));
                probes.push(s.clone());
                let mut w = vec![0xff];
                w.extend(&s);
                w.push(0x80);
                probes.push(w);
            }
        }
        for s in &probes {
            guarded(&mut acc, &format!("bytes {}", hx(s)), |acc| check_input(&mut a, s, acc, true));
            acc.inc("size_probes");
        }
    }
    rep.evaluations += acc.get("size_probes");
    rep.absorb(acc);
    // space 6: every length-prefix class x boundary lengths with the FULL payload present, in the
    // minimal and in every over-long prefix form (canonicity must be decided by the prefix length)
    let mut acc = Acc::default();
    {
        let mut a = Allocator::new();
        let kmax = ctx.pick(21u32, 28);
        let mut lens: Vec<u64> = vec![0, 1, 2, 3];
        for k in 2..=kmax {
            lens.extend([(1u64 << k) - 1, 1u64 << k, (1u64 << k) + 1]);
        }
        lens.sort();
        lens.dedup();
        for n in lens {
            if n > (1u64 << kmax) {
                continue;
            }
            for l in 1..=6usize {
                // value bits available in an l-byte prefix: 7-l in the first byte + 8 per further byte
                let bits = (7 - l) + 8 * (l - 1);
                if n >= (1u64 << bits) {
                    continue;
                }
                let mut s: Vec<u8> = vec![0u8; l];
                for i in 0..l {
                    s[l - 1 - i] = (n >> (8 * i)) as u8;
                }
                s[0] |= (0xffu16 << (8 - l)) as u8;
                for first in [0x41u8, 0x80] {
                    let mut inp = s.clone();
                    if n > 0 {
                        inp.push(first);
                        inp.extend(std::iter::repeat(0x42).take(n as usize - 1));
                    }
                    guarded(&mut acc, &format!("prefix class: {}-byte prefix {} declaring {n} bytes, payload {first:02x} 42..", l, hx(&s)), |acc| check_input_sized(&mut a, &inp, acc, n <= 4096, 65536 + 8 * inp.len() as u64));
                    acc.inc("prefix_class_cases");
                    // and nested as the left child of a pair
                    if n <= (1 << 16) {
                        let mut w = vec![0xff];
                        w.extend(&inp);
                        w.push(0x80);
                        guarded(&mut acc, &format!("prefix class nested: {}-byte prefix {} declaring {n} bytes", l, hx(&s)), |acc| check_input_sized(&mut a, &w, acc, false, 65536 + 8 * w.len() as u64));
                        acc.inc("prefix_class_cases");
                    }
                }
            }
        }
    }
    rep.evaluations += acc.get("prefix_class_cases");
    rep.absorb(acc);

    rep.nontrivial = rep.acc.get("accepted_by_all");
    rep.states = rep.evaluations;
    rep.transitions = rep.evaluations * 4;
    rep.traces = rep.evaluations;
    rep.rule = format!("every byte string of BYTES(3), BYTES({n}, Sigma-classic={}), {}every truncation and one-byte corruption (over {} replacement bytes) of every TREES(4,A6) serialization, and declared-size probes; each run through node_from_stream, parse_triples (with/without hashes, through a 1-byte-per-read reader, and all three stream decoders again from cursor position 3 behind foreign bytes), tree_hash_from_stream and is_canonical_serialization and compared with an independent classic decoder (accept/reject, bytes consumed, tree, triple structure, hash, canonicity); per-input heap requests bounded by 64KiB+256*len (64KiB+8*len for the large prefix-class inputs) via a counting allocator. Non-trivial = inputs accepted (a tree was decoded and compared).",
        hx(&SIGMA_CLASSIC), if ctx.quick() { "" } else { "BYTES(4, 64-byte alphabet), " }, corrupt.len());
    rep.assumptions.push("reference decoder tree::deser (accepts length prefixes of up to 6 bytes with value < 2^34, like the documented format)".into());
    rep.assumptions.push("tree hashes compared against the independent SHA-256 for every 16th input (all three implementations are compared with each other on every input)".into());
    rep
}
