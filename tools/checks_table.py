NOT_APPLICABLE = {}

add("C21", "model_checking", "vh",
    "exhaustive enumeration of the varint encoding space against an independent codec",
    "Every byte string up to 3 (quick) / 4 (thorough) bytes and boundary lattices up to 9 bytes are decoded in strict and lenient mode and compared with a reference varint codec (value, consumed length, acceptance), also through readers that answer every read with 1-2 bytes and writers that accept 1 byte per call; every value in +-2^21 (quick) / +-2^27 (thorough) plus +-2^k+-d is encoded and round-tripped. A finite space enumerated completely, which a unit test cannot do.",
    "Trusts the 60-line reference codec in harness/src/props/c21.rs (written from docs/serde-2026.md); encodings of 5-8 bytes are covered on a boundary lattice, not completely.")

add("C15", "model_checking", "vh",
    "exhaustive small-scope tree enumeration against an independent classic codec",
    "Every tree of TREES(4|5, A6) in 3 sharing modes x 3 atom representations, atoms at every length-prefix boundary, list/deep/doubling families and the prefix encoder up to 2^34 are serialized by the real code and compared with an independent encoder/decoder; four length functions and is_canonical_serialization are checked on every output. The converse direction is decided on C16's byte-string space.",
    "Trusts the reference codec in harness/src/tree.rs. Atoms >= 2^32 bytes reach only the prefix/length arithmetic (lazily zeroed buffers); trees larger than the stated scopes are not covered.")

add("C16", "model_checking", "vh",
    "exhaustive byte-string enumeration, three decoders against a reference decoder",
    "All byte strings of length <= 3, all strings of length <= 6|7 over the 15-byte class alphabet, (thorough) all 4-byte strings over a 64-byte alphabet, every truncation/one-byte corruption of every TREES(4,A6) serialization and declared-size probes go through node_from_stream, parse_triples, tree_hash_from_stream and is_canonical_serialization; acceptance, bytes consumed, tree, triple structure, hash and canonicity are compared with an independent decoder; heap requests per input are bounded with a counting allocator.",
    "Trusts the reference decoder (tree.rs) and reference SHA-256 (refsha.rs, self-tested at start-up). Inputs longer than the bounds are covered only structurally.")

add("C29", "exploration", "vh",
    "exhaustive (tree, limit) enumeration of both limited serializers",
    "Every tree of two small-scope tree spaces (one back-reference rich) with EVERY limit 0..=len+1 through node_to_bytes_limit and node_to_bytes_backrefs_limit; below the length the error must be exactly OutOfMemory, whatever token is being written, at/above it the unlimited bytes; after every failed call short probe trees must serialize correctly through all four serializers (a failure leaves no state behind).",
    "Differential against the unlimited serializers of the same crate (whose correctness is C15/C17's subject).")

add("C17", "exploration", "vh",
    "exhaustive small-scope tree enumeration with sharing; salt enumeration through hook H3",
    "Every tree of two small-alphabet tree spaces (repeated sub-trees at every depth) in fresh and hash-consed form, every tree denoted by a well-formed back-reference token stream of up to 5|6 leaves (decoded by the reference decoder: sub-trees equal to the parse stack, references to references), list families whose paths cross 8/16 bits and doubling trees: node_to_bytes_backrefs output must decode (new, legacy, reference decoder) to the tree, be canonical, be no longer than classic, be identical across two runs and across the enumerated hash-salt classes, and re-serialize to itself.",
    "Trusts the reference back-reference decoder (refserde.rs). Salt classes enumerated: 0, !0, a constant, low-bit and high-bit patterns (bucket index and control byte of the table); not all 2^64 salts.")

add("C18", "model_checking", "vh",
    "exhaustive byte-string and token-sequence enumeration, two decoders and the length probe against a reference decoder",
    "All short byte strings, all strings up to 6|8 bytes over a 12-byte marker/path alphabet and every well-formed token tree up to 4|5 leaves whose leaves are atoms or back-references with every path 0..31 and leading-zero / 0x80 / empty / 2-byte / non-canonical paths: new and legacy decoder and serialized_length_from_bytes must agree with an independent decoder written from docs/compressed-serialization.md on acceptance, tree, pair_count and consumed length.",
    "Trusts refserde.rs; the decoder cursor is not exposed, consumed length is checked as shortest accepted prefix and through the length probe.")

add("C20", "model_checking", "vh",
    "exhaustive tree, byte-string and token-sequence enumeration against a reference 2026 decoder",
    "Trees x levels round-trip strict and lenient with the length probe, also as two blobs back to back on one stream; every short raw body and every token-level blob (atom-table configurations x instruction sequences x declared counts x single overlong-varint deviations) under strict x max_atom_len is decoded by the three entry points (slice, whole-blob stream with the stream position checked afterwards, body stream) and the probe, and compared with a reference decoder written from docs/serde-2026.md; classic and back-reference decoders must reject everything that carries the magic prefix.",
    "Trusts refserde.rs. max_atom_len = usize::MAX (caller-selected unbounded pre-allocation) is not part of the quick tier.")

add("C22", "model_checking", "vh+pyleg",
    "exhaustive small-scope tree enumeration, eight hash implementations against an independent SHA-256",
    "Every tree of three tree spaces (A6, all integers 0..40 hitting the precomputed table, A24) in sharing modes x atom representations: op_sha256_tree and tree_hash_costed (both cost models), ObjectCache treehash, InternedTree::tree_hash, tree_hash_from_stream and parse_triples hashes are compared with the recursive definition computed by a from-scratch SHA-256; the wheel's sha256_treehash is compared in the python leg.",
    "Trusts refsha.rs (round constants derived from primes, self-tested against FIPS vectors).")

add("C24", "exploration", "vh",
    "exhaustive small-scope tree enumeration with sharing and mixed atom representations",
    "Every tree of three tree spaces in 3 sharing modes x 3 atom representations is interned; serialization and hash must be preserved, atoms pairwise byte-distinct and exactly the set of distinct atom values, pairs pairwise distinct and exactly the set of distinct sub-trees, counts <= source; intern_tree_limited is run with every heap limit 0..=need+1.",
    "The model (sets of canonical serializations) is computed on the pure tree; larger trees than the scopes are not covered.")

add("C12", "model_checking", "vh",
    "explicit-state BFS over allocator API histories on the real Allocator with a heap-only reference model in lock-step",
    "Breadth-first search from Allocator::new(): every operation of a ~60-250 operation alphabet (all substr bounds, concat lists, both checkpoint kinds, value-preserving restore, ghost counters, all integer constructors) is applied to the real allocator in every reached state (states de-duplicated by the complete internal fingerprint from hook H1); after every transition atom_count/pair_count/heap_size must equal a heap-only reference allocator. Depth 3 (full alphabet) + depth 4 (thinned) in quick, 5 + 5 in thorough (2.6e8 states), plus a search from a pre-populated state with an outstanding transparent checkpoint.",
    "Trusts the 3-counter reference model in allocmc.rs. Histories longer than the depth bound and atoms outside the alphabet are not covered. One classified defect (substr of an in-place atom) is a known finding identified by (parent bytes, start, end).")

add("C13", "model_checking", "vh",
    "explicit-state BFS from pre-loaded allocator states (every distance from each cap, every small heap limit) with an exact failure oracle",
    "The allocator BFS is started from new_limited(h) for every h in 1..=6|12 and next to the sizes of the large alphabet atoms, and from allocators pre-loaded with ghost atoms/pairs at every distance 0..=2|4 from the 62,500,000 caps (and all caps at once); an operation must fail with the matching error iff the reference model would exceed that cap, a failed call must leave the complete internal state unchanged, and no count may exceed its cap in any reached state.",
    "Part (b) of the design (k-th allocation fails inside real programs) is explored by C25/C03's program runs, not here. Known findings: substr of an in-place atom bypasses the heap limit; new_limited(0) is over its limit at construction.")

add("C14", "model_checking", "vh",
    "allocator BFS with a content oracle + exhaustive enumeration of short byte strings and integers",
    "(a) in every state of the allocator BFS every handle still valid per the model (also after restores to later checkpoints) must read back its recorded bytes/children through every read API, and atom_eq must equal byte equality on every pair of live atoms; (b) fits_in_small_atom/small_number/new_atom on every byte string up to 3 bytes, 4-byte lattices and a 5-letter alphabet up to 6 bytes in inline and heap form; (d) every in-range and out-of-range substring window of parents at several heap positions followed by checkpoint/allocate/restore/allocate: the node handed out keeps its bytes; all integer constructors on every integer in +-2^14|2^17 and +-2^k+-d up to 2^120 against an independent minimal encoder.",
    "Trusts the minimal-encoding oracle in tree.rs (int_bytes).")

add("C19", "model_checking", "vh",
    "explicit-state search over add/undo histories of the real incremental Serializer against a hole-filling tree model",
    "Breadth-first search over histories of Add(fragment, fresh|re-used NodePtr) and Undo(to any saved state) events on the real Serializer, each history replayed on a fresh object: after every undo the bytes/size must equal those recorded before the undone add; add must report completion exactly when the assembled tree has no unfilled sentinel; completed bytes must decode (new, legacy and reference decoder) to the tree assembled by filling sentinel positions in serialization order; byte traces must not depend on the hashing salts (hook H3). Space A (upstream usage: sentinel in tail position) is explored to 4|5 adds / 2 undos / 5|7 events; spaces N, B, C, S (sentinel in any position, repeated sentinels, re-used non-tail fragments, sentinel reached twice through one shared node) to 3-4 adds; a long-list family (every distance 1..160|600 between two occurrences of an atom, split over two adds, with/without an undone add).",
    "Three known findings (exact witness history lists) concern fragments with content after their sentinel; space A is clean. Fragments outside the 17-fragment alphabet and longer histories are not covered.")

add("C01", "model_checking", "vh",
    "small-scope exhaustive program enumeration: real run_program against a reference interpreter (per-case conformance)",
    "Every program of six grammars (operator applications over all classic / unassigned / multi-byte unknown opcodes, raw ((op) . args) forms with improper lists, all ordered operator compositions, every small tree interpreted as a program against every small environment, recursive and allocation-heavy families for every parameter, softfork guards with exact/off-by-k/huge/negative/non-canonical costs) is evaluated by the real interpreter (atoms in place where possible, and again with every atom heap-backed) and by RefVM; results, costs and success under budgets C, C-1, C+1, C/2 must agree. Consensus changes are named adapters with use counts in the evidence.",
    "RefVM (harness/src/refvm.rs) is a transcription of the historical Python interpreter (the package itself is not installable offline); it is validated at every start-up against the repository's 1.2k v1 operator vectors and a vector it gets wrong aborts the check as a machinery error. Programs larger than the scopes are not covered.")

add("C02", "exploration", "vh",
    "deviation-bounded exploration of the budget answer: every budget class of every enumerated program",
    "For every succeeding program of eight spaces (incl. 600-byte operands for every operator family, byte-level forms of softfork arguments) x 5-7 flag sets the only budget-dependent environment answer ('is cost > max?') is explored completely: every budget 1..=C+2 for programs up to the sweep cap, and for costlier programs every threshold extracted from the logged comparisons (hook H2) +-1, plus 2^32, 2^63 and u64::MAX-k. Oracles: soundness, identical successes, upward closure, exact 'cost exceeded' below, tightness (except grandfathered guards). The threshold extraction is validated against the full sweep on every cheap program.",
    "Differential / algebraic oracle on the real interpreter (no separate model). 'May enter a grandfathered guard' is over-approximated syntactically (NEW_COST_MODEL and a softfork atom anywhere), which only skips the tightness clause.")

add("C04", "exploration", "vh",
    "exhaustive differential exploration (ENABLE_GC on vs off) over program spaces, budgets and allocator heap limits",
    "Every program of the GC space (all 34 GC-candidate operators x inner expressions that produce each restore class), the GC-after family (values that survived a value-preserving restore consumed by substr/concat/hash/arithmetic operators), the recursive families, the guard space and P1/P2, under several base flag sets, is run with and without ENABLE_GC for budget 0, C, C-1 and interior thresholds, and under every heap limit within 70 bytes of the program's need; result, cost, error string and atom/pair/heap counts must be identical. The check fails as machinery if no restore happened.",
    "Differential on the real interpreter; the allocator's own accounting is C12's subject. One known finding (F-C04-substr-inline, same root cause as C12's).")

add("C07", "exploration", "vh",
    "exhaustive differential exploration over the flag lattice: every program x base flag set x all 63 subsets of the six restriction flags",
    "For every program of seven spaces (every byte-level form of the two softfork integer arguments, the extension-gated operator around guards, repository vectors for every operator, all opcodes over constants incl. non-canonical integers, arithmetic/BLS operands around 256/1024/2048 bytes, softfork guards, recursive families) and each base flag set, every non-empty subset R of {NO_UNKNOWN_OPS, CANONICAL_INTS, DISABLE_OP, LIMIT_SOFTFORK, LIMITS, LIMIT_HEAP} is added: a success under F|R must be the same success under F; RELAXED_BLS must preserve every success; what mempool mode accepts at a budget equal to its cost the base flags accept at that budget.",
    "LIMIT_HEAP is given the wheel's meaning (allocator limited to 500,000,000 bytes). One known finding: a guard with a non-canonical extension argument under CANONICAL_INTS without NO_UNKNOWN_OPS.")

add("C08", "exploration", "vh",
    "exhaustive differential exploration with an extension-hiding wrapper Dialect",
    "Every guard program of P5, GUARD-ARGS (byte-level forms of the cost/extension arguments) and GUARD-THEN-OP (the gated operator before/after/between/inside guards) (keccak, BLS, 4-byte secp, failing and nested inner programs x extensions x declared costs x contexts), the 4-byte secp opcodes / opcodes 62-65 with vector and junk arguments and the vector programs run on ChiaDialect and on a wrapper dialect that reports every extension as unknown and sends the secp opcodes to op_unknown, under non-strict flag sets without NEW_COST_MODEL and budgets 0, C, C-1: aware success implies unaware success with the same result, cost and atom/pair/heap counts.",
    "The wrapper dialect (progspace.rs::HideExt) is the model of an extension-unaware node.")

add("C11", "exploration", "vh",
    "exhaustive differential exploration F vs F|NEW_COST_MODEL",
    "Every program of seven spaces (vectors, all opcodes, big operands reaching the split-accumulator code of + - and the logic operators, compositions, families, guards, limit-size operands) under 6|15 base flag sets (every flag whose meaning the new model changes appears alone) is run under both cost models (budget ceiling 2^34 and the smaller of the two costs); whenever both succeed the result trees must be identical.",
    "Differential on the real interpreter; the number of distinct operators for which both models succeed is reported to show non-vacuity.")

add("C31", "exploration", "vh",
    "exhaustive differential exploration of guard programs against the hidden-guard run under both cost models; nesting-depth boundary",
    "Every guard program of P5, GUARD-ARGS and GUARD-THEN-OP under both cost models and with the keccak-enabling flag alone is run on ChiaDialect and on the extension-hiding dialect: equal result means the guard yielded nil, equal final atom/pair/heap counts mean the guard left the counts as at its entry, equal cost means it consumed exactly its declared cost (not required for grandfathered extensions under NEW_COST_MODEL); guards nested 1,2,3,19,20,21,22 deep with and without LIMIT_SOFTFORK.",
    "Counts at guard entry are observed through the hidden-guard run (whose guard allocates nothing), not by sampling inside the run.")

add("C23", "exploration", "vh",
    "exhaustive small-scope tree enumeration, differential cost of two real evaluations",
    "For every tree of TREES(6|7, {nil, 01, 32-byte}) and TREES(3|4, atom sizes 0..100000), list / spine / complete-tree families and single atoms up to 1 MiB, under both cost models: run_program cost of (sha256tree (q . X)) must be strictly below the cost of the standard ChiaLisp sha256tree program applied to X, with equal results; each native call is also preceded by calls that run out of budget at C/4, C/2, 3C/4 and C-1 (the call after a failure must be unchanged).",
    "The ChiaLisp program text is the one in tools/src/bin/sha256tree-benching.rs; trees beyond the scopes are not covered.")

add("C30", "exploration", "vh",
    "exhaustive differential exploration, RuntimeDialect vs ChiaDialect",
    "The standard table is reconstructed as every opcode->op_* assignment of ChiaDialect::op whose name f_table::opcode_by_name knows, quote 1, apply 2. Dialects with two NON-standard tables are built and probed before and after (each must honour its own table). Every in-scope program of seven spaces x 8|20 flag sets is run on both dialects under budgets 0, C, C-1; result, cost and error string must be equal (ChiaDialect gets the flags minus ENABLE_GC and DISABLE_OP).",
    "Scope filter is syntactic and conservative (any mention of 36, 48, 62-65 or a 4-byte secp opcode excludes the program). The 'standard table' is not shipped as a literal by the repository.")

add("C03", "exploration", "vh",
    "explicit enumeration of prior allocator histories and atom re-encodings (deviation-bounded) around the real run_program",
    "For every program of seven spaces the outcome in a fresh allocator is compared with the run after every prior history of length <=2|3 over a 9-event alphabet (junk atoms/pairs, earlier succeeding and failing runs, runs that validate BLS points and then fail, an earlier run of the subject itself, checkpoint+restore, a failed allocation), with the all-heap / all-view / mixed re-encodings and every single-atom deviation, and with every scripted accumulator-choice sequence of the pre-hard-fork + / - slow path (hook H4).",
    "Histories are sequences of public API calls on the same Allocator; runs that hit an allocator limit are excluded by the property's own statement. The accumulator script needs hook H4.")

add("C06", "exploration", "vh",
    "exhaustive differential exploration of four operators, num-bigint vs malachite backend",
    "div, divmod and mod over every argument list of arity 0..=2|3 (plus improper terminators) and modpow over every (base, exponent, modulus) triple over a 30-50 value integer alphabet (boundary values in canonical, zero-padded and ff-padded form, eight zero bytes before 0x80, 257..2100-byte positive and negative operands, a pair) x 6 flag sets, called through ChiaDialect::op with and without MALACHITE at a high budget, the exact cost and cost-1: identical Ok(cost, result) or identical error string; plus call histories (two big operands at the same NodePtr across a checkpoint restore; programs with two big-operand calls under ENABLE_GC).",
    "Differential between two backends of the same crate; modpow exponents are capped at 33 bytes for run time.")

add("C09", "model_checking", "vh",
    "exhaustive enumeration of opcodes x argument-size vectors against an independent u128 implementation of the published rule",
    "Every unassigned 1- and 2-byte opcode, every opcode up to 4|6 bytes over a 10-byte alphabet, 16 core opcodes with every argument vector of arity <=2|3 over shared atoms of 0..1 MiB|64 MiB and a pair, and the overflow corner (every multiplier whose product wraps k times and lands below 2^32) are called through ChiaDialect::op under both cost models, three budgets and strict mode; the outcome must equal an independent implementation of the rule (nil + (multiplier+1)*base, or failure under the six listed conditions); unassigned / not-enabled opcodes are also run by run_program inside extension-0 guards nested in guards of extension 0/1/2 against the reference interpreter.",
    "The reference rule is ~60 lines in props/c09.rs written from the comment block of op_unknown and docs/new-operator-checklist.md. Known finding: the pre-hard-fork model multiplies with wrapping_mul.")

add("C25", "exploration", "vh",
    "exhaustive exploration of programs x flag sets x budgets x allocation-fault points under catch_unwind, in an assertion-enabled build",
    "Every program of 15 spaces (incl. every single-argument mutation of a succeeding op-tests vector per operator, byte-level forms of softfork arguments) x 5 flag sets (incl. every defined flag bit) x budgets {0,1,C-1,C,u64::MAX}; for the allocation-heavy spaces every heap limit and every atom/pair-cap headroom from 0 up to the first one that reproduces the unconstrained outcome (the k-th allocation fails, all k) with a monotone, peak-free oracle; every opcode called directly with every small argument list (proper and improper, inline and heap atoms); deep structures up to 10^5|10^6 in a child process with an 8 MiB stack. Oracle: no panic / abort / stack overflow, never InternalError, caps reported with the matching error.",
    "The harness is built with overflow-checks and debug-assertions, so wrap-arounds and debug_assert! failures surface as panics. Programs beyond the scopes are not covered.")

add("C05", "exploration", "vh",
    "exhaustive differential exploration across three separately built binaries (default, no-fastpath, counters+pre-eval)",
    "About 2.3M (quick) cases - every program of nine spaces x 5 flag sets x 4 budgets (failing programs: a 48-step geometric budget ladder), 23 operators called directly with every argument list of arity <=3|4 over boundary atoms in inline / heap / view representation under both cost models, sha256 of (1 n) for n=0..40 in every representation - are evaluated by three harness binaries built against clvmr with default features, no-fastpath, and counters+pre-eval (observe-only callback, run_program_with_counters); the per-case outcome digests (result, cost, error string, atom/pair/heap counts) must be byte-identical.",
    "The quick command builds three binaries (about 1-3 minutes when cold). The accumulator choice of the pre-hard-fork +/- slow path is scripted identically in all binaries (hook H4).")

add("C10", "model_checking", "vh",
    "exhaustive enumeration of operator argument lists against a reference cost model (RefCost), per-call conformance",
    "30 generic operators with every argument list of small arity over a boundary alphabet (padded forms, 257..2100-byte operands), accumulator-growing/shrinking sequences, the repository's vectors and constructed argument lists for the BLS / secp / keccak / coinid operators, and sha256tree on every small tree in fresh / hash-consed / atom-shared form plus doubling to 2^15|2^19 shared leaves: under both cost models (and MALACHITE for the division family), in up to three atom representations, directly and inside run_program, the charged cost of every successful call must equal RefCost.",
    "RefCost (harness/src/refcost.rs) is written from docs/cost-model.md, docs/sha256tree.md and the operators' documentation comments with its own copy of the constants; it is validated at every start-up against every operator vector in op-tests (v1 and v2). Where the markdown and the vectors disagree (logand/logior/logxor, +/- argument sizing) the vectors win and the evidence carries a documentation note.")

add("C26", "exploration", "vh+pyleg",
    "exhaustive conformance of the freshly built extension module against the Rust harness on enumerated cases",
    "The harness enumerates programs (all opcodes over constants, guards, repository vectors, families) x every single flag bit 0..31, MEMPOOL_MODE, all-ones, pairs of defined bits x budgets {0,1,C,C-1}, malformed serializations, every small tree and every short byte string / back-reference stream / 2026 blob, and records what the Rust core returns (same truncated flags, same allocator limit). The python leg replays every case through run_serialized_chia_program, ser_*/deser_*/deser_auto/serialized_length/deserialize_as_tree and walks every returned LazyNode through .atom/.pair: cost, result tree, or exact error message and error node must be equal; every small-integer boundary atom goes through the LazyNode views; the pure-python serde.serialize/deserialize front end is driven with every ordered pair of calls over a call alphabet (the second call must not depend on the first).",
    "The wheel is built as a plain cdylib from /repo's working tree (no maturin) and imported under python 3.11. Both sides run the same clvmr code in different builds, so this check targets the binding layer (flag truncation, allocator limit, error adaptation, LazyNode views, argument plumbing).")

add("C27", "exploration", "pyleg",
    "exhaustive tree x storage-kind enumeration in python",
    "Every tree of TREES(4|5, {'aaaa','bbbb',''}) and every small-integer boundary atom (alone, in a pair, twice in a list) wrapped in twelve CLVMStorage implementations (plain objects with fresh / hash-consed / atom-shared identity, Program.to, Program.from_bytes, LazyNode from both decoders, a wrapper whose pair accessor builds fresh children on every access, CLVMTree with and without cached hashes, also wrapped in Program) goes through clvm_tree_to_lazy_node, ser_2026, deser_2026 and an atom/pair walk and must serialize to the source bytes.",
    "CPython's allocator reuses freed addresses deterministically for these small objects, which is what makes the (now fixed) address-reuse defect reproducible; object addresses themselves cannot be scripted.")

add("C28", "exploration", "pyleg",
    "exhaustive conformance of the pure-python helpers against the Rust core and independent oracles",
    "sexp_to_bytes and the forced pure-python deserialize_as_tuples fallback on every tree of TREES(4|5,A6); sexp_from_stream on ~33k byte strings (all short strings, every length-prefix class with size bytes over {00,01,ff} up to 7 bytes and short/exact/long bodies) against the Rust classic decoder; int_to_bytes/int_from_bytes on every integer in +-2^12|2^17 and +-2^k+-d (k<=130) against an independent minimal encoder and the Rust interpreter; curry/uncurry/curry_hash/run-equivalence and the treehasher helpers (called twice with one caller-owned list) on 20|40 modules x 260 argument lists.",
    "Independent oracles are ~100 lines of python at the top of pyref/pyleg.py (reference classic codec, hashlib tree hash, minimal integer encoder).")

add("C32", "model_checking", "pyleg",
    "exhaustive enumeration of structured argument lists, the operators inside the built wheel against from-scratch reference implementations",
    "About 8.5k argument lists: sha256 / keccak256 over arity <=3|4 incl. block-boundary lengths and pairs, coinid over id lengths x all amount encodings, secp256k1/r1 verify (opcodes 64/65 and the 4-byte opcodes) over 13 key encodings x 7 digests x 14 signatures, BLS point_add / g1_subtract / g2_add / g2_subtract over every list of arity <=2|3 over a 15-/12-point alphabet (infinity, multiples of G, outside the subgroup, x>=p, flag-bit corruptions, wrong lengths, pair), negate with and without RELAXED_BLS, multiply / pubkey_for_exp over 12 scalars, g1/g2_map over messages x DSTs, secp digests with 1-16 leading zero bytes verified in full and truncated form, pairing identity and bls_verify with signatures produced by the reference; each must give the same bytes / the same accept-reject decision as pyref.",
    "pyref (pyref/bls.py, h2c.py, c32leg.py) is written from scratch: BLS12-381 tower, optimal-ate pairing, (de)compression with subgroup check, RFC 9380 hash-to-curve, Weierstrass ECDSA, Keccak-f. Curve constants are self-validated (on-curve, r*G = infinity); the 11-/3-isogeny coefficient tables are parsed from the blst C sources in the local cargo registry and pyref must reproduce blspy vectors of the repository at start-up; sha256 is hashlib's. Known finding: secp256k1 rejects high-s signatures.")
