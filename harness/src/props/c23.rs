// C23 — native sha256tree never costs more than its ChiaLisp equivalent.
use crate::common::*;
use crate::progspace::*;
use crate::tree::{Enc, T, TreeSpace, atom, cons, list, quote};
use clvmr::chia_dialect::ClvmFlags;
use serde_json::json;

fn check_tree(x: &T, clsp: &T, acc: &mut Acc, name: &str) {
    for flags in [ClvmFlags::ENABLE_SHA256_TREE, ClvmFlags::ENABLE_SHA256_TREE | ClvmFlags::NEW_COST_MODEL] {
        let native = list(&[atom(&[63]), quote(x.clone())]);
        let n = with_loaded(&native, &crate::tree::nil(), Enc::Inline, |l| l.run_flags(flags, 0));
        let c = with_loaded(clsp, &list(&[x.clone()]), Enc::Inline, |l| l.run_flags(flags, 0));
        acc.add("runs", 2);
        acc.inc("comparisons");
        let canon = format!("tree={} flags={:#x}", if x.ser_len() <= 200 { x.hex() } else { name.to_string() }, flags.bits());
        if !n.ok || !c.ok {
            acc.violation(canon, format!("a run failed: native {} chialisp {}", n.brief(), c.brief()));
            continue;
        }
        if n.digest != c.digest {
            acc.violation(canon.clone(), "native and ChiaLisp tree hashes differ".into());
        }
        // history: native calls that run out of budget at 1/4, 1/2, 3/4 and all-but-one of the cost (somewhere inside
        // the traversal), each followed on the same thread by the unlimited call: its cost and hash must be unchanged
        {
            let mut carried = None;
            for b in [n.cost / 4, n.cost / 2, n.cost / 4 * 3, n.cost - 1] {
                if b == 0 {
                    continue;
                }
                let (f, again) = with_loaded(&native, &crate::tree::nil(), Enc::Inline, |l| (l.run_flags(flags, b), l.run_flags(flags, 0)));
                acc.add("runs", 2);
                if f.ok || !again.ok || again.cost != n.cost || again.digest != n.digest {
                    carried = Some(format!("after the native call failed under budget {b} ({}), the unlimited call gives {} (fresh: {})", f.brief(), again.brief(), n.brief()));
                    break;
                }
            }
            if let Some(m) = carried {
                acc.violation(canon.clone(), m);
            }
        }
        if n.cost >= c.cost {
            acc.violation(canon, format!("native sha256tree costs {} but the ChiaLisp program costs {}", n.cost, c.cost));
        } else {
            acc.inc("native_cheaper");
            acc.max("max_ratio_permille", n.cost * 1000 / c.cost);
        }
    }
}

pub fn run(ctx: &Ctx) -> Report {
    let mut rep = Report::new("C23", "exploration");
    let clsp_ser = parse_prog(SHA256TREE_CLSP).ser();
    let seed = ctx.seed;
    let spaces = vec![
        TreeSpace::from_bytes(ctx.pick(6, 7), &[&[], &[1], &[0x77; 32]]),
        TreeSpace::new(ctx.pick(3, 4), &[atom(&[]), atom(&[1]), atom(&vec![0x41; 100]), atom(&vec![0x42; 1000]), atom(&vec![0x43; 100_000])]),
    ];
    for (si, ts) in spaces.iter().enumerate() {
        let acc = par_for(ctx, ts.total, 32, |i| format!("space{si} tree#{i}"), |i, acc| {
            let clsp = crate::tree::deser(&clsp_ser).unwrap().0;
            let t = ts.get(i);
            check_tree(&t, &clsp, acc, &format!("space{si}#{i}"));
            acc.inc("trees");
            acc.maybe_sample(sample_key(seed, i), || json!({"tree": if t.ser_len() < 120 { t.hex() } else { format!("({} bytes)", t.ser_len()) }}));
        });
        rep.absorb(acc);
    }
    // families: right lists, complete trees, deep left spines
    let mut acc = Acc::default();
    let clsp = crate::tree::deser(&clsp_ser).unwrap().0;
    let nmax = ctx.pick(200usize, 2000);
    for n in [1usize, 2, 3, 10, 50, nmax] {
        let leaf = atom(&[0x55; 32]);
        let mut right = crate::tree::nil();
        let mut left = crate::tree::nil();
        for i in 0..n {
            right = cons(atom(&[i as u8, 1]), right);
            left = cons(left, leaf.clone());
        }
        check_tree(&right, &clsp, &mut acc, &format!("right list n={n}"));
        check_tree(&left, &clsp, &mut acc, &format!("left spine n={n}"));
        acc.add("trees", 2);
    }
    let mut t = atom(b"leaf");
    for d in 1..=ctx.pick(10, 14) {
        t = cons(t.clone(), t);
        check_tree(&t, &clsp, &mut acc, &format!("complete depth {d}"));
        acc.inc("trees");
    }
    for sz in [0usize, 1, 31, 32, 33, 1 << 16, 1 << 20] {
        check_tree(&atom(&vec![0x5a; sz]), &clsp, &mut acc, &format!("single atom {sz} bytes"));
        acc.inc("trees");
    }
    rep.absorb(acc);
    rep.evaluations = rep.acc.get("runs");
    rep.nontrivial = rep.acc.get("native_cheaper");
    rep.states = rep.acc.get("trees");
    rep.transitions = rep.acc.get("runs");
    rep.traces = rep.acc.get("comparisons");
    rep.rule = format!("every tree of TREES({}, {{nil, 01, 32-byte}}) and TREES({}, atom sizes {{0,1,100,1000,100000}}), right lists / left spines up to {nmax}, complete trees, single atoms up to 1 MiB (each also as a history: a native call that runs out of budget at 1/4, 1/2, 3/4, C-1 followed by the unlimited call, which must be unchanged), under ENABLE_SHA256_TREE with and without NEW_COST_MODEL: cost of (sha256tree (q . X)) must be strictly below the cost of the standard ChiaLisp sha256tree program (tools/src/bin/sha256tree-benching.rs) applied to X, and both must return the same hash. Non-trivial = comparisons (each compares two real run_program costs).", ctx.pick(6, 7), ctx.pick(3, 4));
    rep
}
