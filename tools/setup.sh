#!/bin/bash
# Builds the verification framework from files on disk only (offline).
set -e
cd "$(dirname "$0")/.."
export CARGO_NET_OFFLINE=true
cp /repo/Cargo.lock harness/Cargo.lock 2>/dev/null || true
cargo build --release --offline --manifest-path harness/Cargo.toml --target-dir target/base
cargo build --release --offline --manifest-path harness/Cargo.toml --target-dir target/nofast --features nofast
cargo build --release --offline --manifest-path harness/Cargo.toml --target-dir target/instr --features instr
(cd /repo && cargo build -p clvm_rs --release --offline --target-dir /verif/target/wheel)
echo "setup ok"
