#!/usr/bin/env python3
"""Python leg of the checks: replays harness-generated cases through the freshly built wheel and
explores the pure-python helpers.  usage: pyleg.py PID TIER SEED RUST_RESULT.json OUT.json PYWHEEL_DIR TARGET_DIR"""
import hashlib
import io
import itertools
import json
import multiprocessing as mp
import os
import sys
import time
import traceback

PID, TIER, SEED, RUST_RESULT, OUT, PYDIR, TARGET = sys.argv[1:8]
SEED = int(SEED)
QUICK = TIER == "quick"
sys.path.insert(0, PYDIR)
sys.path.insert(0, os.path.dirname(os.path.abspath(__file__)))


class Res:
    def __init__(self):
        self.evaluations = 0
        self.nontrivial = 0
        self.violations = []
        self.violation_count = 0
        self.counts = {}
        self.samples = []
        self.notes = {}
        self.machinery_errors = []
        self.rule = ""
        self._seen = set()

    def inc(self, k, n=1):
        self.counts[k] = self.counts.get(k, 0) + n

    def violation(self, canon, detail):
        if canon in self._seen:
            return
        self._seen.add(canon)
        self.violation_count += 1
        if len(self.violations) < 400:
            self.violations.append({"canon": canon, "detail": detail[:1500]})

    def merge(self, d):
        self.evaluations += d["evaluations"]
        self.nontrivial += d["nontrivial"]
        for v in d["violations"]:
            self.violation(v["canon"], v["detail"])
        self.violation_count += max(0, d["violation_count"] - len(d["violations"]))
        for k, v in d["counts"].items():
            self.inc(k, v)
        self.samples = (self.samples + d["samples"])[:6]
        self.machinery_errors += d["machinery_errors"]

    def dump(self):
        return {"evaluations": self.evaluations, "nontrivial": self.nontrivial, "violations": self.violations,
                "violation_count": self.violation_count, "counts": self.counts, "samples": self.samples, "notes": self.notes,
                "machinery_errors": self.machinery_errors, "rule": self.rule}


# ---------------------------------------------------------------------------------------------
# pure-python reference helpers (independent of the package under test)

def ref_ser_atom(b):
    n = len(b)
    if n == 0:
        return b"\x80"
    if n == 1 and b[0] < 0x80:
        return b
    if n < 0x40:
        return bytes([0x80 | n]) + b
    if n < 0x2000:
        return bytes([0xC0 | (n >> 8), n & 0xFF]) + b
    if n < 0x100000:
        return bytes([0xE0 | (n >> 16), (n >> 8) & 0xFF, n & 0xFF]) + b
    raise ValueError("too long for this reference")


def walk_ser(obj):
    """serialize any object with the .atom/.pair protocol by walking it (checks the LazyNode views)"""
    out = []
    stack = [obj]
    while stack:
        o = stack.pop()
        p = o.pair
        if p is not None:
            out.append(b"\xff")
            stack.append(p[1])
            stack.append(p[0])
        else:
            a = o.atom
            assert a is not None, "object has neither atom nor pair"
            out.append(ref_ser_atom(bytes(a)))
    return b"".join(out)


class PyNode:
    """a plain python CLVM object"""
    __slots__ = ("atom", "pair")

    def __init__(self, atom=None, pair=None):
        self.atom = atom
        self.pair = pair


def ref_deser(b):
    """reference classic decoder -> (PyNode, consumed) or raises ValueError"""
    pos = 0
    ops = ["p"]
    vals = []
    while ops:
        op = ops.pop()
        if op == "c":
            r = vals.pop()
            l = vals.pop()
            vals.append(PyNode(pair=(l, r)))
            continue
        if pos >= len(b):
            raise ValueError("eof")
        c = b[pos]
        pos += 1
        if c == 0xFF:
            ops += ["c", "p", "p"]
        elif c == 0x80:
            vals.append(PyNode(atom=b""))
        elif c < 0x80:
            vals.append(PyNode(atom=bytes([c])))
        else:
            ones = 0
            m = 0x80
            while c & m:
                ones += 1
                c &= ~m
                m >>= 1
            if ones > 6:
                raise ValueError("bad prefix")
            n = c
            for _ in range(ones - 1):
                if pos >= len(b):
                    raise ValueError("eof")
                n = (n << 8) | b[pos]
                pos += 1
            if n >= 0x400000000 or len(b) - pos < n:
                raise ValueError("bad size")
            vals.append(PyNode(atom=bytes(b[pos:pos + n])))
            pos += n
    return vals.pop(), pos


def ref_tree_hash(node):
    stack = [("v", node)]
    vals = []
    while stack:
        k, o = stack.pop()
        if k == "c":
            r = vals.pop()
            l = vals.pop()
            vals.append(hashlib.sha256(b"\x02" + l + r).digest())
        elif o.pair is not None:
            stack += [("c", None), ("v", o.pair[1]), ("v", o.pair[0])]
        else:
            vals.append(hashlib.sha256(b"\x01" + bytes(o.atom)).digest())
    return vals.pop()


def min_int_bytes(v):
    if v == 0:
        return b""
    n = (v.bit_length() + 8) // 8
    b = v.to_bytes(n, "big", signed=True)
    while len(b) > 1 and ((b[0] == 0 and b[1] < 0x80) or (b[0] == 0xFF and b[1] >= 0x80)):
        b = b[1:]
    return b


def cases_file(pid):
    return os.path.join(TARGET, f"{pid}.{TIER}.cases.jsonl")


def chunks(lines, n):
    k = (len(lines) + n - 1) // n
    return [lines[i:i + k] for i in range(0, len(lines), k)]


# ---------------------------------------------------------------------------------------------
# C26

def c26_worker(lines):
    import clvm_rs.clvm_rs as c
    r = Res()
    for line in lines:
        case = json.loads(line)
        k = case["k"]
        r.evaluations += 1
        try:
            if k == "run":
                p, e = bytes.fromhex(case["p"]), bytes.fromhex(case["e"])
                exp = case["r"]
                canon = f"run p={case['p'][:200]} e={case['e'][:80]} budget={case['b']} flags={case['f']:#x}"
                try:
                    cost, node = c.run_serialized_chia_program(p, e, case["b"], case["f"])
                    got = {"ok": True, "cost": cost, "res": walk_ser(node).hex()}
                    # the serializer entry point must agree with the walked view
                    if c.ser_legacy(node).hex() != got["res"]:
                        r.violation(canon, "ser_legacy(result) differs from the tree seen through LazyNode.atom/.pair")
                except ValueError as ex:
                    a = ex.args
                    if len(a) == 1 and isinstance(a[0], tuple):
                        a = a[0]
                    if len(a) == 2 and hasattr(a[1], "atom"):
                        got = {"ok": False, "err": a[0], "node": walk_ser(a[1]).hex()}
                    else:
                        got = {"decode_error": str(a[0]) if a else ""}
                if "decode_error" in exp:
                    if got.get("decode_error") != exp["decode_error"]:
                        r.violation(canon, f"wheel {got} rust {exp}")
                    else:
                        r.inc("decode_errors_equal")
                elif exp.get("ok"):
                    if not got.get("ok") or got["cost"] != exp["cost"] or (exp["res"] is not None and got["res"] != exp["res"]):
                        r.violation(canon, f"wheel {str(got)[:300]} rust {str(exp)[:300]}")
                    else:
                        r.nontrivial += 1
                        r.inc("successes_equal")
                else:
                    if got.get("ok") is not False or got["err"] != exp["err"] or got["node"] != exp["node"]:
                        r.violation(canon, f"wheel {str(got)[:300]} rust {str(exp)[:300]}")
                    else:
                        r.nontrivial += 1
                        r.inc("errors_equal")
            elif k == "ser":
                legacy = bytes.fromhex(case["legacy"])
                node = c.deser_legacy(legacy)
                canon = f"ser tree={case['legacy']}"
                if c.ser_legacy(node).hex() != case["legacy"] or c.ser_backrefs(node).hex() != case["backrefs"] or c.ser_2026(node).hex() != case["s2026"] or c.ser_2026(node, level=0xFFFFFFFF).hex() != case["s2026"]:
                    r.violation(canon, "ser_legacy / ser_backrefs / ser_2026 differ from the Rust serializers")
                elif walk_ser(node) != legacy:
                    r.violation(canon, "LazyNode atom/pair walk differs from the tree")
                else:
                    r.nontrivial += 1
                    r.inc("ser_equal")
            elif k == "deser":
                b = bytes.fromhex(case["b"])
                canon = f"deser bytes={case['b'][:120]}"
                for name, fn in (("legacy", c.deser_legacy), ("backrefs", c.deser_backrefs), ("d2026", c.deser_2026), ("auto", c.deser_auto)):
                    exp = case[name]
                    try:
                        n = fn(b)
                        got = {"ok": walk_ser(n).hex()}
                    except ValueError as ex:
                        got = {"err": str(ex)}
                    if "ok" in exp:
                        if got.get("ok") != exp["ok"]:
                            r.violation(canon + " " + name, f"wheel {str(got)[:200]} rust {str(exp)[:200]}")
                        else:
                            r.nontrivial += 1
                            r.inc("deser_ok_equal")
                    else:
                        if "err" not in got:
                            r.violation(canon + " " + name, f"wheel accepts ({str(got)[:100]}) rust rejects ({exp['err']})")
                        elif name != "d2026" and got["err"] != exp["err"]:
                            # deser_2026 replaces the message when the magic prefix is missing
                            r.violation(canon + " " + name, f"error message: wheel '{got['err']}' rust '{exp['err']}'")
                        else:
                            r.inc("deser_err_equal")
                exp = case["len"]
                try:
                    got = {"ok": c.serialized_length(b)}
                except ValueError as ex:
                    got = {"err": str(ex)}
                if got != exp:
                    r.violation(canon + " serialized_length", f"wheel {got} rust {exp}")
                exp = case["tree"]
                try:
                    t, h = c.deserialize_as_tree(b, True)
                    got = {"ok": {"t": [list(x) for x in t], "h": [bytes(x).hex() for x in h]}}
                    t2, h2 = c.deserialize_as_tree(b, False)
                    if h2 is not None or [list(x) for x in t2] != got["ok"]["t"]:
                        r.violation(canon + " deserialize_as_tree", "calculate_tree_hashes=False gives different triples")
                except (ValueError, OSError) as ex:
                    got = {"err": str(ex)}
                if ("ok" in exp) != ("ok" in got) or ("ok" in exp and exp["ok"] != got["ok"]):
                    r.violation(canon + " deserialize_as_tree", f"wheel {str(got)[:200]} rust {str(exp)[:200]}")
        except Exception:
            r.violation(f"python-leg exception on {line[:200]}", traceback.format_exc()[-800:])
    if lines:
        r.samples.append(json.loads(lines[len(lines) // 2]))
    return r.dump()


def c26_wrapper_histories(res):
    """the pure-python front end clvm_rs.serde.serialize / deserialize: every (format, keyword) combination must equal
    the direct extension function with the documented defaults, and — history dimension — the outcome of a call must
    not depend on ANY earlier call (all ordered pairs of calls over a small call alphabet, each pair in this one process)."""
    import clvm_rs.clvm_rs as c
    from clvm_rs import serde

    def atom_tree_2026(n):
        return c.ser_2026(c.deser_legacy(bytes([0xff]) + atom_prefix(n) + b"\x5a" * n + b"\x80"))

    def atom_prefix(n):
        if n < 0x40:
            return bytes([0x80 | n])
        if n < 0x2000:
            return bytes([0xc0 | (n >> 8), n & 0xff])
        if n < 0x100000:
            return bytes([0xe0 | (n >> 16), (n >> 8) & 0xff, n & 0xff])
        return bytes([0xf0 | (n >> 24), (n >> 16) & 0xff, (n >> 8) & 0xff, n & 0xff])

    blobs = {
        "2026:100B": atom_tree_2026(100),
        "2026:1MiB": atom_tree_2026(1 << 20),
        "2026:1MiB+1": atom_tree_2026((1 << 20) + 1),
        "legacy:small": bytes.fromhex("ff8568656c6c6f80"),
        "backrefs": bytes.fromhex("ff86666f6f626172fe02"),
        "2026:overlong-varint": None,
    }
    blobs = {k: v for k, v in blobs.items() if v is not None}

    def outcome(fn):
        try:
            return ("ok", walk_ser(fn()).hex()[:64], None)
        except ValueError as ex:
            return ("err", str(ex), None)

    # call alphabet: (name, thunk through the python wrapper, thunk through the extension function with explicit defaults)
    calls = []
    for bn, b in blobs.items():
        for fmt in ("auto", "2026", "legacy", "backrefs"):
            direct = {"auto": c.deser_auto, "2026": c.deser_2026, "legacy": c.deser_legacy, "backrefs": c.deser_backrefs}[fmt]
            kw_default = {"strict": True, "max_atom_len": 1 << 20} if fmt in ("auto", "2026") else {}
            calls.append((f"deserialize({bn},{fmt})", (lambda b=b, fmt=fmt: serde.deserialize(b, fmt)), (lambda b=b, d=direct, kw=kw_default: d(b, **kw))))
            if fmt in ("auto", "2026"):
                for mal in (0, 8, 100, 4 << 20):
                    for strict in (True, False):
                        calls.append((f"deserialize({bn},{fmt},max_atom_len={mal},strict={strict})",
                                      (lambda b=b, fmt=fmt, mal=mal, strict=strict: serde.deserialize(b, fmt, max_atom_len=mal, strict=strict)),
                                      (lambda b=b, d=direct, mal=mal, strict=strict: d(b, strict=strict, max_atom_len=mal))))
    expected = {}
    for name, wrapped, direct in calls:
        expected[name] = outcome(direct)
    n = 0
    seconds = [cl for cl in calls if "max_atom_len" not in cl[0] or "2026:100B,auto" in cl[0]]
    for n1, w1, _ in calls:
        for n2, w2, _ in seconds:
            outcome(w1)
            got = outcome(w2)
            n += 1
            if got != expected[n2]:
                res.violation(f"python wrapper history: {n1} then {n2}", f"the second call gives {got}, the extension function with the documented defaults gives {expected[n2]}")
    # serialize wrapper
    node = c.deser_legacy(bytes.fromhex("ff8568656c6c6fff8568656c6c6f80"))
    for fmt, fn in (("legacy", c.ser_legacy), ("backrefs", c.ser_backrefs), ("2026", c.ser_2026)):
        for lvl in (0, 1, 0xFFFFFFFF):
            exp = fn(node, level=lvl) if fmt == "2026" else fn(node)
            if serde.serialize(node, fmt, level=lvl) != exp:
                res.violation(f"python wrapper serialize({fmt}, level={lvl})", "differs from the extension function")
            n += 1
    res.inc("wrapper_history_pairs", n)
    res.evaluations += n
    res.nontrivial += n


def run_c26(res):
    lines = open(cases_file("C26")).read().splitlines()
    with mp.Pool(16) as pool:
        for d in pool.imap_unordered(c26_worker, chunks(lines, 64)):
            res.merge(d)
    try:
        c26_wrapper_histories(res)
    except Exception:
        res.violation("python-leg exception in the wrapper histories", traceback.format_exc()[-1200:])
    res.rule = ("every harness-generated case is replayed through the freshly built extension module: run_serialized_chia_program for programs of P1, "
                "P5thin, PV, P4 x every single flag bit 0..31, MEMPOOL_MODE, all-ones and (every 16th program) every pair of defined bits x budgets {0,1,C,C-1} plus malformed "
                "serializations, compared with the Rust core (same flags after truncation, same allocator limit): cost, result tree (walked through LazyNode.atom/.pair and through "
                "ser_legacy) or the exact error message and error node; ser_legacy/ser_backrefs/ser_2026 on every small tree; deser_legacy/deser_backrefs/deser_2026/deser_auto/"
                "serialized_length/deserialize_as_tree on every short byte string, back-reference streams and 2026 blobs; the pure-python serde.serialize/deserialize front end: every ordered PAIR of calls over a call alphabet (5 blobs x 4 formats x max_atom_len x strict) — the second call must equal the extension function with the documented defaults whatever the first call was. Non-trivial = cases with a compared success or a compared error node.")


# ---------------------------------------------------------------------------------------------
# C27

def storage_kinds():
    import clvm_rs.clvm_rs as c
    from clvm_rs.program import Program
    from clvm_rs.clvm_tree import CLVMTree

    def to_py(n):
        if n.pair is not None:
            return PyNode(pair=(to_py(n.pair[0]), to_py(n.pair[1])))
        return PyNode(atom=bytes(n.atom))

    def to_tuple(n):
        if n.pair is not None:
            return (to_tuple(n.pair[0]), to_tuple(n.pair[1]))
        return bytes(n.atom)

    class Fresh:
        """pair accessor builds fresh child objects on every access"""
        def __init__(self, src):
            self._s = src

        @property
        def atom(self):
            return self._s.atom

        @property
        def pair(self):
            p = self._s.pair
            if p is None:
                return None
            return (Fresh(p[0]), Fresh(p[1]))

    def hashcons(n, memo):
        """identical sub-trees (and atoms) are the SAME python object"""
        key = walk_ser(n)
        if key in memo:
            return memo[key]
        if n.pair is not None:
            o = PyNode(pair=(hashcons(n.pair[0], memo), hashcons(n.pair[1], memo)))
        else:
            o = PyNode(atom=bytes(n.atom))
        memo[key] = o
        return o

    def atoms_shared(n, memo):
        """only equal atoms are the same python object"""
        if n.pair is not None:
            return PyNode(pair=(atoms_shared(n.pair[0], memo), atoms_shared(n.pair[1], memo)))
        b = bytes(n.atom)
        if b not in memo:
            memo[b] = PyNode(atom=b)
        return memo[b]

    return {
        "plain": lambda b: to_py(ref_deser(b)[0]),
        "plain-hashcons": lambda b: hashcons(ref_deser(b)[0], {}),
        "plain-atoms-shared": lambda b: atoms_shared(ref_deser(b)[0], {}),
        "Program.to": lambda b: Program.to(to_tuple(ref_deser(b)[0])),
        "Program.from_bytes": lambda b: Program.from_bytes(b),
        "LazyNode": lambda b: c.deser_legacy(b),
        "fresh-children": lambda b: Fresh(to_py(ref_deser(b)[0])),
        "CLVMTree": lambda b: CLVMTree.from_bytes(b),
        "CLVMTree(calculate_tree_hash=False)": lambda b: CLVMTree.from_bytes(b, calculate_tree_hash=False),
        "Program.wrap(CLVMTree no hashes)": lambda b: Program.wrap(CLVMTree.from_bytes(b, calculate_tree_hash=False)),
        "LazyNode(deser_backrefs)": lambda b: c.deser_backrefs(b),
    }


def c27_worker(lines):
    import clvm_rs.clvm_rs as c
    r = Res()
    kinds = storage_kinds()
    for line in lines:
        b = bytes.fromhex(json.loads(line)["b"])
        for name, mk in kinds.items():
            r.evaluations += 1
            canon = f"tree={b.hex()} storage={name}"
            try:
                obj = mk(b)
                lazy = c.clvm_tree_to_lazy_node(obj)
                blob = c.ser_2026(lazy)
                back = c.deser_2026(blob)
                got = walk_ser(back)
                if got != b or walk_ser(lazy) != b:
                    r.violation(canon, f"clvm_tree_to_lazy_node returned the tree {walk_ser(lazy).hex()} (after ser_2026/deser_2026: {got.hex()})")
                else:
                    r.nontrivial += 1
                    r.inc("roundtrips_" + name)
            except Exception:
                r.violation(canon, traceback.format_exc()[-600:])
    if lines:
        r.samples.append(json.loads(lines[len(lines) // 2]))
    return r.dump()


def run_c27(res):
    lines = open(cases_file("C27")).read().splitlines()
    with mp.Pool(16) as pool:
        for d in pool.imap_unordered(c27_worker, chunks(lines, 64)):
            res.merge(d)
    res.rule = ("every tree of TREES(4|5, {'aaaa','bbbb',''}) wrapped in every CLVMStorage implementation the wheel ships or accepts (plain python objects, Program.to, Program.from_bytes, "
                "plain objects with hash-consed / atom-shared python identity, LazyNode from deser_legacy, a wrapper whose pair accessor builds fresh children on every access, CLVMTree with and without cached tree hashes, also wrapped in Program), plus every small-integer boundary atom alone / in a pair / twice in a list: ser_2026(clvm_tree_to_lazy_node(obj)) is decoded with deser_2026 and "
                "walked through atom/pair; it must serialize to the source bytes. Non-trivial = (tree, storage kind) pairs that round-trip.")


# ---------------------------------------------------------------------------------------------
# C28

def c28_worker(args):
    kind, lines = args
    import clvm_rs.clvm_rs as c
    from clvm_rs import ser as pyser, de as pyde
    from clvm_rs.program import Program
    from clvm_rs import casts
    r = Res()
    if kind == "trees":
        for line in lines:
            b = bytes.fromhex(json.loads(line)["b"])
            r.evaluations += 1
            canon = f"sexp_to_bytes tree={b.hex()}"
            try:
                node = ref_deser(b)[0]
                rust = bytes(c.ser_legacy(c.deser_legacy(b)))
                got = pyser.sexp_to_bytes(node)
                if got != rust or got != b:
                    r.violation(canon, f"pure-python serializer {got.hex()} rust {rust.hex()}")
                else:
                    r.nontrivial += 1
                    r.inc("ser_equal")
                # deserialize_as_tuples with the pure fallback forced
                saved = pyde.deserialize_as_tree
                pyde.deserialize_as_tree = None
                try:
                    t_py = pyde.deserialize_as_tuples(b, 0, True)
                finally:
                    pyde.deserialize_as_tree = saved
                t_rs = c.deserialize_as_tree(b, True)
                if [tuple(x) for x in t_py[0]] != [tuple(x) for x in t_rs[0]] or [bytes(x) for x in t_py[1]] != [bytes(x) for x in t_rs[1]]:
                    r.violation(f"deserialize_as_tuples tree={b.hex()}", "pure-python fallback differs from the Rust parse_triples")
            except Exception:
                r.violation(canon, traceback.format_exc()[-600:])
    elif kind == "boundary":
        # atoms at every length-prefix boundary, alone and as children, through the pure-python serializer,
        # Program bytes and the Rust serializer
        for size in lines:
            for first in (0x00, 0x7f, 0x80, 0xff):
                r.evaluations += 1
                a = bytes([first]) + b"\x33" * (size - 1) if size else b""
                canon = f"sexp_to_bytes boundary atom len={size} first={first:#x}"
                try:
                    for shape in ("atom", "pair"):
                        node = PyNode(atom=a) if shape == "atom" else PyNode(pair=(PyNode(atom=a), PyNode(atom=b"")))
                        got = pyser.sexp_to_bytes(node)
                        lazy = c.clvm_tree_to_lazy_node(node)
                        rust = bytes(c.ser_legacy(lazy))
                        if got != rust:
                            r.violation(canon + " " + shape, f"pure-python serializer prefix {got[:8].hex()} ({len(got)} bytes), rust {rust[:8].hex()} ({len(rust)} bytes)")
                        elif bytes(Program.to(a if shape == "atom" else (a, b""))) != rust:
                            r.violation(canon + " " + shape, "bytes(Program) differs from the Rust serializer")
                        else:
                            r.nontrivial += 1
                            r.inc("boundary_equal")
                except Exception:
                    r.violation(canon, traceback.format_exc()[-600:])
    elif kind == "bytes":
        for b in lines:
            r.evaluations += 1
            canon = f"sexp_from_stream bytes={b.hex()}"
            try:
                try:
                    rn = c.deser_legacy(b)
                    rust = walk_ser(rn)
                    rlen = len(ref_ser_canon_len(b))
                except ValueError:
                    rust = None
                try:
                    f = io.BytesIO(b)
                    pn = pyser.sexp_from_stream(f, lambda l, rr: PyNode(pair=(l, rr)), lambda a: PyNode(atom=bytes(a)))
                    py = walk_ser(pn)
                    pos = f.tell()
                except (ValueError, EOFError, IndexError, OverflowError, MemoryError) as ex:
                    py = None
                if (rust is None) != (py is None):
                    r.violation(canon, f"pure-python stream deserializer {'accepts' if py is not None else 'rejects'}, Rust classic decoder {'accepts' if rust is not None else 'rejects'}")
                elif rust is not None:
                    if rust != py:
                        r.violation(canon, f"trees differ: python {py.hex()} rust {rust.hex()}")
                    else:
                        r.nontrivial += 1
                        r.inc("deser_equal")
                else:
                    r.inc("both_reject")
            except Exception:
                r.violation(canon, traceback.format_exc()[-600:])
    elif kind == "ints":
        for v in lines:
            r.evaluations += 1
            try:
                exp = min_int_bytes(v)
                got = casts.int_to_bytes(v)
                if got != exp:
                    r.violation(f"int_to_bytes {v}", f"{got.hex()} expected {exp.hex()}")
                if casts.int_from_bytes(exp) != v:
                    r.violation(f"int_from_bytes {exp.hex()}", f"{casts.int_from_bytes(exp)} expected {v}")
                # cross-check with the Rust interpreter: (+ (q . v) ()) re-encodes canonically
                if abs(v) < (1 << 200) and r.evaluations % 8 == 0:
                    prog = b"\xff\x10\xff\xff\x01" + ref_ser_atom(exp) + b"\xff\xff\x01\x80\x80"
                    _, res_node = c.run_serialized_chia_program(prog, b"\x80", 0, 0)
                    if bytes(res_node.atom) != got:
                        r.violation(f"int_to_bytes {v} vs rust", f"python {got.hex()} rust {bytes(res_node.atom).hex()}")
                r.nontrivial += 1
            except Exception:
                r.violation(f"int {v}", traceback.format_exc()[-600:])
    elif kind == "curry":
        mods, arglists = lines
        for m in mods:
            for args in arglists:
                r.evaluations += 1
                canon = f"curry mod={m.hex()} args={[a.hex() for a in args]}"
                try:
                    mod = Program.from_bytes(m)
                    pargs = [Program.from_bytes(a) for a in args]
                    curried = mod.curry(*pargs)
                    ch = mod.curry_hash(*[p.tree_hash() for p in pargs])
                    if ch != ref_tree_hash(ref_deser(bytes(curried))[0]):
                        r.violation(canon, "curry_hash != tree hash of the curried program")
                    # the treehasher's public helpers called directly, twice, with ONE caller-owned list: same result
                    # both times, equal to the reference, and the caller's list is left untouched
                    th = Program.curry_treehasher
                    hashes = [p.tree_hash() for p in pargs]
                    owned = list(hashes)
                    v1 = th.curried_values_tree_hash(owned)
                    v2 = th.curried_values_tree_hash(owned)
                    qmh = th.calculate_hash_of_quoted_mod_hash(mod.tree_hash())
                    ch2 = th.curry_and_treehash(qmh, *owned)
                    if owned != hashes:
                        r.violation(canon + " curried_values_tree_hash", "the caller's argument list was modified")
                    if v1 != v2 or ch2 != ch:
                        r.violation(canon + " curried_values_tree_hash", "a second call with the same list / curry_and_treehash afterwards gives a different hash")
                    env_tree = PyNode(atom=b"\x01")
                    for a in reversed(args):
                        env_tree = PyNode(pair=(PyNode(atom=b"\x04"), PyNode(pair=(PyNode(pair=(PyNode(atom=b"\x01"), ref_deser(a)[0])), PyNode(pair=(env_tree, PyNode(atom=b"")))))))
                    if v1 != ref_tree_hash(env_tree):
                        r.violation(canon + " curried_values_tree_hash", "differs from the tree hash of the curried environment (c (q . A1) (c (q . A2) ... 1))")
                    un = curried.uncurry()
                    if bytes(un[0]) != m or [bytes(x) for x in un[1]] != list(args):
                        r.violation(canon, f"uncurry(curry(m, args)) = ({bytes(un[0]).hex()}, {[bytes(x).hex() for x in un[1]]})")
                    # run-equivalence: run(curry(m,args), env) == run(m, args ++ env)
                    env = ref_deser(bytes.fromhex("ff8205398080"))[0]
                    full_env = env
                    for a in reversed(args):
                        full_env = PyNode(pair=(ref_deser(a)[0], full_env))
                    def run(pb, envnode):
                        try:
                            cost, res_node = c.run_serialized_chia_program(pb, walk_ser(envnode), 0, 0)
                            return ("ok", walk_ser(res_node))
                        except ValueError as ex:
                            return ("err", str(ex.args[0]) if ex.args else "")
                    r1 = run(bytes(curried), env)
                    r2 = run(m, full_env)
                    if r1[0] != r2[0] or (r1[0] == "ok" and r1[1] != r2[1]):
                        r.violation(canon, f"run(curry(m,args), env) = {r1} but run(m, args++env) = {r2}")
                    else:
                        r.nontrivial += 1
                        r.inc("curry_equivalent_" + r1[0])
                except Exception:
                    r.violation(canon, traceback.format_exc()[-600:])
    return r.dump()


class PyBuild:
    @staticmethod
    def mk(x):
        if isinstance(x, tuple):
            return PyNode(pair=(x[0], x[1]))
        return PyNode(atom=bytes(x))


def ref_ser_canon_len(b):
    return b


def run_c28(res):
    lines = open(cases_file("C28")).read().splitlines()
    jobs = [("trees", ch) for ch in chunks(lines, 32)]
    jobs += [("boundary", [sz]) for sz in (0, 1, 2, 0x3e, 0x3f, 0x40, 0x41, 0x1ffe, 0x1fff, 0x2000, 0x2001, 0xffffe, 0xfffff, 0x100000, 0x100001)]
    # byte strings: all of BYTES(2) plus the structured prefix space
    inputs = [bytes(x) for n in range(0, 3) for x in itertools.product(range(256), repeat=n)] if not QUICK else [bytes(x) for n in range(0, 2) for x in itertools.product(range(256), repeat=n)] + [bytes([a, b]) for a in (0x00, 0x7f, 0x80, 0x81, 0xbf, 0xc0, 0xe0, 0xf0, 0xf8, 0xfc, 0xfe, 0xff) for b in range(256)]
    firsts = [0x81, 0xbf, 0xc0, 0xdf, 0xe0, 0xef, 0xf0, 0xf7, 0xf8, 0xfb, 0xfc, 0xfd, 0xfe]
    for f in firsts:
        for n in range(0, 8):
            for size_bytes in itertools.product([0x00, 0x01, 0xff], repeat=n):
                if n > 4 and any(x == 0xff for x in size_bytes[:-1]):
                    continue
                pre = bytes([f]) + bytes(size_bytes)
                for body in (b"", b"A", b"AB", b"A" * 70):
                    inputs.append(pre + body)
    for pre in (b"\xff", b"\xff\xff", b"\xff\x01"):
        for b in (b"", b"\x01", b"\x80", b"\x01\x02", b"\x81\x80\x01", b"\xfe\x01"):
            inputs.append(pre + b)
    inputs = sorted(set(inputs))
    jobs += [("bytes", ch) for ch in chunks(inputs, 32)]
    ib = 1 << (12 if QUICK else 17)
    ints = list(range(-ib, ib + 1))
    for k in range(0, 131):
        for d in (-2, -1, 0, 1, 2):
            ints += [(1 << k) + d, -(1 << k) + d]
    jobs += [("ints", ch) for ch in chunks(sorted(set(ints)), 16)]
    # modules x argument lists
    mods_txt = ["01", "02", "05", "ff10ff02ff0580", "ff04ff02ff0580", "ff02ff02ff0580", "ff0bff02ff0580", "ff08ff0280", "ff12ffff0103ff0280", "ff04ffff0101ff0180",
                "ff03ff02ff05ff0b80", "ff0eff02ff05ff0b80", "ff09ff02ff0580", "ff15ff02ff0580", "ff10ff02ff05ff0bff1780", "80", "ff0180", "ff01ff02ff0380", "ffff010180", "ff06ff0180"]
    if not QUICK:
        mods_txt += ["ff0cff02ff05ff0b80", "ff0dff0280", "ff11ff02ff0580", "ff13ff02ff0580", "ff16ff02ff0580", "ff18ff02ff0580", "ff1bff0280", "ff20ff0280", "ff21ff02ff0580", "ff07ff0280",
                     "ff05ff0280", "ff06ff0280", "ff02ffff0101ff0180", "ff02ffff01ff10ff02ff0580ff0180", "ff3cff02ff05ff0b80", "ff30ff02ff05ff0b80", "8200ff", "ff8200ffff0280", "ff24ffff0164ffff0180ffff01ff0101ff0180", "ffff028080"]
    mods = [bytes.fromhex(m) for m in mods_txt]
    a6 = [b"\x80", b"\x01", b"\x02", b"\x81\x80", b"\x82\x00\x80", b"\x81\xff"]
    arglists = [()] + [(a,) for a in a6] + [(a, b) for a in a6 for b in a6] + [(a, b, c2) for a in a6[:3] for b in a6[:3] for c2 in a6[:3]] + [(b"\xff\x01\x02",), (b"\xff\x01\x02", b"\x80")]
    jobs += [("curry", ([m], arglists)) for m in mods]
    with mp.Pool(16) as pool:
        for d in pool.imap_unordered(c28_worker, jobs):
            res.merge(d)
    res.rule = (f"sexp_to_bytes and the pure-python deserialize_as_tuples fallback on every tree of TREES(4|5,A6) against the Rust classic serializer / parse_triples; sexp_to_bytes and bytes(Program) on atoms at every length-prefix boundary up to 0x100001 bytes (alone and in a pair); sexp_from_stream on {len(inputs)} byte "
                f"strings (all strings up to 1|2 bytes, every length-prefix class with size bytes over {{00,01,ff}} up to 7 bytes and short/exact/long bodies) against the Rust classic decoder (accept/reject and tree); "
                f"int_to_bytes / int_from_bytes on every integer in +-{ib} and +-2^k+-d (k<=130) against an independent minimal encoder and (every 8th) the Rust interpreter; curry / uncurry / curry_hash / "
                f"run-equivalence on {len(mods)} modules x {len(arglists)} argument lists. Non-trivial = compared successes.")


# ---------------------------------------------------------------------------------------------
# C22 python arm

def c22_worker(lines):
    import clvm_rs.clvm_rs as c
    from clvm_rs.program import Program
    from clvm_rs.tree_hash import sha256_treehash
    r = Res()
    for line in lines:
        case = json.loads(line)
        b = bytes.fromhex(case["b"])
        node = ref_deser(b)[0]
        want = ref_tree_hash(node)
        if want.hex() != case["h"]:
            r.machinery_errors.append(f"hashlib-based tree hash disagrees with the harness reference for {case['b']}")
        objs = {"plain": node, "Program": Program.from_bytes(b), "LazyNode": c.deser_legacy(b)}
        for name, o in objs.items():
            r.evaluations += 1
            try:
                got = bytes(sha256_treehash(o))
                if got != want:
                    r.violation(f"sha256_treehash tree={case['b']} storage={name}", f"{got.hex()} expected {want.hex()}")
                else:
                    r.nontrivial += 1
            except Exception:
                r.violation(f"sha256_treehash tree={case['b']} storage={name}", traceback.format_exc()[-500:])
        try:
            if Program.from_bytes(b).tree_hash() != want:
                r.violation(f"Program.tree_hash tree={case['b']}", "differs")
        except Exception:
            r.violation(f"Program.tree_hash tree={case['b']}", traceback.format_exc()[-500:])
    return r.dump()


def run_c22(res):
    lines = open(cases_file("C22")).read().splitlines()
    with mp.Pool(16) as pool:
        for d in pool.imap_unordered(c22_worker, chunks(lines, 32)):
            res.merge(d)
    res.rule = "the wheel's sha256_treehash (and Program.tree_hash) on every tree of TREES(3|4,A6) as plain python objects, Program and LazyNode against sha256(1||atom)/sha256(2||l||r) computed with hashlib (cross-checked with the harness's own SHA-256)."


HANDLERS = {"C26": run_c26, "C27": run_c27, "C28": run_c28, "C22": run_c22}


def main():
    res = Res()
    t = time.time()
    try:
        if PID == "C32":
            import c32leg
            c32leg.run(res, QUICK, SEED, TARGET)
        else:
            HANDLERS[PID](res)
    except Exception:
        res.machinery_errors.append(traceback.format_exc()[-1500:])
    res.notes["python_wall_s"] = round(time.time() - t, 1)
    json.dump(res.dump(), open(OUT, "w"))


if __name__ == "__main__":
    main()
