#!/usr/bin/env python3
"""Regenerates /verif/MANIFEST.json from the table below (kept next to the code so that the
manifest never claims a check that does not exist)."""
import json, os, subprocess
ROOT = os.path.dirname(os.path.dirname(os.path.abspath(__file__)))
ALL = [f"C{n:02d}" for n in range(1, 33)]

# id -> (category, engine, technique, text, note)
CHECKS = {}
def add(pid, cat, engine, technique, text, note):
    CHECKS[pid] = (cat, engine, technique, text, note)

exec(open(os.path.join(ROOT, "tools", "checks_table.py")).read())

hooks_commits = subprocess.run(["git", "-C", "/repo", "log", "--format=%h %s", "--grep=^verif-hooks"],
                               capture_output=True, text=True).stdout.strip().splitlines()
m = {
    "version": 1,
    "setup_cmd": "cd /verif && ./tools/setup.sh",
    "hooks": {
        "guard": "verif-hooks",
        "enable": "cargo feature: the harness crate depends on clvmr with features=[\"verif-hooks\"] (cargo build --features clvmr/verif-hooks)",
        "baseline_off_cmd": "cd /repo && (cargo nextest run --workspace --no-fail-fast --test-threads 8 --offline || cargo test --workspace --no-fail-fast --offline)",
        "source_commits": [c.split()[0] for c in hooks_commits],
        "add_only": True,
    },
    "engines": [
        {"name": "vh", "path": "harness/", "serves_properties": sorted(CHECKS),
         "kind_free_text": "Rust binary: deterministic exhaustive enumerators (trees, byte strings, token sequences, programs, operator argument lists, allocator/serializer histories) driving the real clvmr API against reference models; explicit-state BFS with canonical state fingerprints for histories"},
        {"name": "pyleg", "path": "pyref/", "serves_properties": [p for p in sorted(CHECKS) if p in ("C22", "C26", "C27", "C28", "C32")],
         "kind_free_text": "python3 leg: freshly built wheel (cdylib) conformance against harness output; from-scratch crypto reference implementations"},
    ],
    "checks": [],
    "not_applicable": [],
    "notes": "All checks are bounded-exhaustive explorations (model-checking family): see DESIGN.md. ./check <ID> --tier quick|thorough; exit 0 held / 1 violation / 2 machinery.",
}
for pid in ALL:
    if pid in CHECKS:
        cat, engine, technique, text, note = CHECKS[pid]
        m["checks"].append({
            "property_id": pid,
            "quick_cmd": f"./check {pid} --tier quick",
            "thorough_cmd": f"./check {pid} --tier thorough",
            "evidence_file": f"/verif/evidence/{pid}.json",
            "replay_cmd_template": f"./check {pid} --replay {{path}}",
            "engine": engine,
            "level_claimed": {"category": cat, "text": text, "design_ref": f"DESIGN.md §3 {pid}"},
            "level_note": note,
            "technique": technique,
        })
    else:
        m["not_applicable"].append({"property_id": pid, "reason": NOT_APPLICABLE.get(pid, "check not built yet in this round (planned, see DESIGN.md §3); not claimed")})
json.dump(m, open(os.path.join(ROOT, "MANIFEST.json"), "w"), indent=1)
print("claimed", len(m["checks"]), "not claimed", len(m["not_applicable"]))
