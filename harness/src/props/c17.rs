// C17 — back-reference serialization round-trips and never grows.
use crate::common::*;
use crate::domains::*;
use crate::refserde;
use crate::tree::{self, Builder, Enc, Shape, Sharing, T, TreeSpace, atom, cons, shapes};
use clvmr::allocator::{Allocator, NodePtr};
use clvmr::serde::{is_canonical_serialization, node_from_bytes_backrefs, node_from_bytes_backrefs_old, node_to_bytes_backrefs};
use serde_json::json;

pub fn salts(ctx: &Ctx) -> Vec<u64> {
    let mut v = vec![0u64, !0u64, 0x9e3779b97f4a7c15];
    let (lo, hi) = if ctx.quick() { (16u64, 8u64) } else { (64, 128) };
    for i in 1..lo {
        v.push(i * (64 / lo));
    }
    for i in 1..hi {
        v.push((i * (128 / hi)) << 57);
    }
    v
}

pub fn check_tree(a: &mut Allocator, node: NodePtr, t: &T, canon: &str, salts: &[u64], acc: &mut Acc) {
    let classic = t.ser();
    clvmr::verif::set_salt(None);
    let out = match node_to_bytes_backrefs(a, node) {
        Ok(o) => o,
        Err(e) => {
            acc.violation(canon.to_string(), format!("node_to_bytes_backrefs failed: {e}"));
            return;
        }
    };
    // run-to-run and salt independence
    let again = node_to_bytes_backrefs(a, node).unwrap();
    if again != out {
        acc.violation(canon.to_string(), format!("output differs between two runs: {} vs {}", hx(&out), hx(&again)));
    }
    for s in salts {
        clvmr::verif::set_salt(Some(*s));
        let o = node_to_bytes_backrefs(a, node).unwrap();
        if o != out {
            acc.violation(canon.to_string(), format!("output depends on hash salt {s:#x}: {} vs {}", hx(&out), hx(&o)));
            break;
        }
    }
    clvmr::verif::set_salt(None);
    if out.len() > classic.len() {
        acc.violation(canon.to_string(), format!("back-reference form is longer ({}) than classic ({})", out.len(), classic.len()));
    }
    if out.len() < classic.len() {
        acc.inc("with_backrefs");
    }
    if !is_canonical_serialization(&out) {
        acc.violation(canon.to_string(), format!("output {} is not canonical", hx(&out)));
    }
    let cp = a.checkpoint();
    match node_from_bytes_backrefs(a, &out) {
        Ok(n) => {
            if tree::read_ser(a, n) != classic {
                acc.violation(canon.to_string(), format!("decode(encode(t)) != t for {}", hx(&out)));
            }
            // re-serialize the decoded tree
            match node_to_bytes_backrefs(a, n) {
                Ok(o2) if o2 == out => {}
                o => acc.violation(canon.to_string(), format!("ser(decode(out)) = {:?} != out {}", o.map(|x| hx(&x)), hx(&out))),
            }
        }
        Err(e) => acc.violation(canon.to_string(), format!("node_from_bytes_backrefs rejects serializer output {}: {e}", hx(&out))),
    }
    match node_from_bytes_backrefs_old(a, &out) {
        Ok(n) => {
            if tree::read_ser(a, n) != classic {
                acc.violation(canon.to_string(), "legacy decoder gives a different tree".into());
            }
        }
        Err(e) => acc.violation(canon.to_string(), format!("legacy decoder rejects output: {e}")),
    }
    a.restore_checkpoint(&cp);
    match refserde::deser_backrefs(&out) {
        Some(d) if d.tree == *t && d.consumed == out.len() => {}
        _ => acc.violation(canon.to_string(), format!("reference decoder does not reproduce the tree from {}", hx(&out))),
    }
    acc.inc("cases");
    acc.outcome(fnv(&out));
}

pub fn spaces(ctx: &Ctx) -> Vec<TreeSpace> {
    let four: Vec<T> = vec![atom(&[]), atom(&[1]), atom(b"abcd"), atom(&[0x41; 40])];
    vec![TreeSpace::new(ctx.pick(5, 6), &four), TreeSpace::new(ctx.pick(4, 5), &atoms_t(&a6()))]
}

pub fn run(ctx: &Ctx) -> Report {
    let mut rep = Report::new("C17", "exploration");
    let seed = ctx.seed;
    let sl = salts(ctx);
    for (si, ts) in spaces(ctx).iter().enumerate() {
        let acc = par_for(ctx, ts.total, 64, |i| format!("space{si} tree#{i}"), |i, acc| {
            thread_local! { static A: std::cell::RefCell<Allocator> = std::cell::RefCell::new(Allocator::new()); }
            let t = ts.get(i);
            A.with(|a| {
                let a = &mut a.borrow_mut();
                for sh in [Sharing::Fresh, Sharing::HashCons] {
                    let cp = a.checkpoint();
                    let n = Builder::new(sh, Enc::Inline).build(a, &t);
                    check_tree(a, n, &t, &format!("tree {} sharing={sh:?}", t.hex()), &sl, acc);
                    a.restore_checkpoint(&cp);
                }
            });
            acc.maybe_sample(sample_key(seed, i), || json!({"tree": t.hex()}));
        });
        rep.absorb(acc);
    }
    // stream-derived trees: every well-formed back-reference token stream with up to L leaves over
    // {nil, 'aaaa', 'llll', back-reference with path 1..=P} is decoded by the REFERENCE decoder; the tree it
    // denotes (repeated sub-trees at every depth, sub-trees equal to the parse stack itself, references to
    // references) goes through the same round-trip oracle.
    {
        fn emit(shape: &Shape, leaves: &[&Vec<u8>], idx: &mut usize, out: &mut Vec<u8>) {
            match shape {
                Shape::L => {
                    out.extend_from_slice(leaves[*idx]);
                    *idx += 1;
                }
                Shape::N(a, b) => {
                    out.push(0xff);
                    emit(a, leaves, idx, out);
                    emit(b, leaves, idx, out);
                }
            }
        }
        let plans: Vec<(usize, u8)> = if ctx.quick() { vec![(5, 7)] } else { vec![(6, 7), (5, 15)] };
        for (maxl, maxpath) in plans {
            let mut toks: Vec<Vec<u8>> = vec![vec![0x80], vec![0x84, b'a', b'a', b'a', b'a'], vec![0x84, b'l', b'l', b'l', b'l']];
            for p in 1..=maxpath {
                toks.push(vec![0xfe, p]);
            }
            let k = toks.len() as u64;
            for nl in 2..=maxl {
                let shp = shapes(nl);
                let per = k.pow(nl as u32);
                let total = shp.len() as u64 * per;
                let acc = par_for(ctx, total, 1 << 10, |i| format!("stream-derived leaves={nl} paths<={maxpath} #{i}"), |i, acc| {
                    thread_local! { static A: std::cell::RefCell<Allocator> = std::cell::RefCell::new(Allocator::new()); }
                    let sh = &shp[(i / per) as usize];
                    let mut d = i % per;
                    let mut leaves: Vec<&Vec<u8>> = vec![&toks[0]; nl];
                    for j in (0..nl).rev() {
                        leaves[j] = &toks[(d % k) as usize];
                        d /= k;
                    }
                    let mut stream = vec![];
                    let mut idx = 0;
                    emit(sh, &leaves, &mut idx, &mut stream);
                    acc.inc("streams_enumerated");
                    if !stream.contains(&0xfe) {
                        return; // plain trees are covered by the TREES spaces
                    }
                    let Some(dec) = refserde::deser_backrefs(&stream) else { return };
                    if dec.consumed != stream.len() {
                        return;
                    }
                    acc.inc("stream_derived_trees");
                    let t = dec.tree;
                    A.with(|a| {
                        let a = &mut a.borrow_mut();
                        let cp = a.checkpoint();
                        let n = Builder::new(Sharing::HashCons, Enc::Inline).build(a, &t);
                        check_tree(a, n, &t, &format!("tree {} (denoted by stream {}) sharing=HashCons", t.hex(), hx(&stream)), &sl[..2], acc);
                        a.restore_checkpoint(&cp);
                    });
                });
                rep.absorb(acc);
            }
        }
    }
    // families: lists of n equal items (path lengths crossing 8/16 bits), (x . x) doubling
    let mut acc = Acc::default();
    let nmax = ctx.pick(80usize, 300);
    let mut a = Allocator::new();
    for n in 1..=nmax {
        for item in [atom(b"foobar"), cons(atom(b"abcdef"), atom(b"ghijkl"))] {
            let mut t = atom(&[]);
            for _ in 0..n {
                t = cons(item.clone(), t);
            }
            let node = Builder::new(Sharing::Fresh, Enc::Inline).build(&mut a, &t);
            check_tree(&mut a, node, &t, &format!("list n={n} item={}", item.hex()), &sl[..3], &mut acc);
            // distinct items interleaved with a repeated one
            let mut t2 = atom(&[]);
            for i in 0..n {
                let it = if i % 3 == 0 { item.clone() } else { atom(&[0x80, (i % 250) as u8, (i / 250) as u8]) };
                t2 = cons(it, t2);
            }
            let node = Builder::new(Sharing::Fresh, Enc::Inline).build(&mut a, &t2);
            check_tree(&mut a, node, &t2, &format!("mixed list n={n} item={}", item.hex()), &sl[..3], &mut acc);
            acc.inc("family_cases");
        }
    }
    // distance family: (X . (a1 . (a2 . ... (an . X)))) — a repeated node of every small serialized
    // length at every stack distance (path lengths crossing every byte boundary)
    let dist_max = ctx.pick(72usize, 200);
    for xl in 0..8usize {
        let x = if xl < 7 { atom(&vec![0x61 + xl as u8; xl + 2]) } else { cons(atom(&[1]), atom(&[2])) };
        for n in 0..=dist_max {
            let mut t = x.clone();
            for i in (0..n).rev() {
                t = cons(atom(&[0x80 | (i % 120) as u8, (i / 120) as u8 + 1, 0x55]), t);
            }
            let t = cons(x.clone(), t);
            let node = Builder::new(Sharing::Fresh, Enc::Inline).build(&mut a, &t);
            check_tree(&mut a, node, &t, &format!("distance family x={} n={n}", x.hex()), &sl[..2], &mut acc);
            acc.inc("family_cases");
        }
    }
    let dmax = ctx.pick(10usize, 14);
    let mut t = atom(b"0123456789");
    for d in 1..=dmax {
        t = cons(t.clone(), t);
        let node = Builder::new(Sharing::HashCons, Enc::Inline).build(&mut a, &t);
        check_tree(&mut a, node, &t, &format!("doubling depth={d}"), &sl[..3], &mut acc);
        acc.inc("family_cases");
    }
    rep.absorb(acc);
    rep.evaluations = rep.acc.get("cases");
    rep.nontrivial = rep.acc.get("with_backrefs");
    rep.states = rep.evaluations;
    rep.transitions = rep.evaluations * (sl.len() as u64 + 6);
    rep.traces = rep.evaluations;
    rep.rule = format!("every tree of TREES({}, {{nil,01,'abcd',40-byte}}) and TREES({}, A6) in fresh and hash-consed form, every tree denoted by a well-formed back-reference token stream of <= 5|6 leaves over {{nil,'aaaa','llll', paths 1..7|15}} (decoded by the reference decoder), lists of 1..{nmax} equal/mixed items and (x . x) doubling to depth {dmax}; oracle: new, legacy and reference decoders give the tree back, output canonical, len <= classic, identical across two runs and {} hash salts (hook H3), ser(decode(out)) == out. Non-trivial = outputs strictly shorter than classic (contain a back-reference).", ctx.pick(5, 6), ctx.pick(4, 5), sl.len());
    rep.assumptions.push("reference decoder refserde.rs; salts are injected through the verif-hooks salt override".into());
    rep
}
