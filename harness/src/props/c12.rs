// C12 — allocator resource accounting is representation-independent (BFS vs heap-only model).
use crate::common::*;
use crate::props::allocmc::*;
use clvmr::allocator::Allocator;
use serde_json::json;

pub fn run(ctx: &Ctx) -> Report {
    let mut rep = Report::new("C12", "model_checking");
    // every worker builds its own start state: the harness must not require `Allocator: Sync` or `Send` (a change that
    // adds interior mutability to the allocator would otherwise break the harness build instead of being judged)
    let plans: Vec<(&str, Alphabet, usize)> = if ctx.quick() {
        vec![("full alphabet", Alphabet::full(), 3), ("thinned alphabet", Alphabet::thin(), 4)]
    } else {
        vec![("full alphabet", Alphabet::full(), 5), ("thinned alphabet", Alphabet::thin(), 5)]
    };
    let mut per = vec![];
    for (name, al, depth) in plans {
        let r = bfs(ctx, || St::new(Allocator::new(), u32::MAX as usize), "new()", &al, depth, Modes::default(), 400_000_000);
        rep.states += r.states;
        rep.transitions += r.transitions;
        per.push(json!({"alphabet": name, "depth": depth, "states": r.states, "transitions": r.transitions, "per_depth(new_states,transitions)": r.per_depth}));
        rep.absorb(r.acc);
    }
    // start from a non-initial state too: an old 1100-byte heap atom, an outstanding transparent checkpoint and
    // 1100 bytes of garbage after it, so that every value-preserving restore class (old bytes, new bytes, inline)
    // is reached within the depth bound
    {
        let al = Alphabet::thin();
        let prefix = vec![Op::NewAtom(vec![0x62; 1100]), Op::NewAtom(vec![0x00, 0x80]), Op::TCheckpoint, Op::NewAtom(vec![0x63; 1100])];
        let depth = if ctx.quick() { 3 } else { 4 };
        let al2 = Alphabet::thin();
        let r = bfs(ctx, || {
            let mut st = St::new(Allocator::new(), u32::MAX as usize);
            let mut scratch = Acc::default();
            for op in &prefix {
                let _ = step(&mut st, op, &al2, Modes::default(), &mut scratch);
            }
            st
        }, "new() NewAtom(1100B) NewAtom(0080) TCheckpoint NewAtom(1100B)", &al, depth, Modes::default(), 40_000_000);
        rep.states += r.states;
        rep.transitions += r.transitions;
        per.push(json!({"alphabet": "thinned, from a pre-populated state with an outstanding transparent checkpoint", "depth": depth, "states": r.states, "transitions": r.transitions}));
        rep.absorb(r.acc);
    }
    rep.note("searches", json!(per));
    rep.evaluations = rep.transitions;
    rep.traces = rep.transitions;
    rep.nontrivial = rep.states;
    rep.rule = "explicit-state BFS from Allocator::new(): every operation of the alphabet (new_atom over A12+49B+1100B, new_small_number, new_u64/i64/number/malachite_number, new_pair over a window of the 4 most recent handles + nil/one, new_substr for ALL 0<=s<=e<=len plus out-of-range triples, new_concat for lists of <=2 atoms with right/+1/-1 size, full and transparent checkpoints and restores, maybe_restore_with_node for every window handle, ghost atom/pair add/remove) applied to the real Allocator (forked through hook H1) in every reached state, with a heap-only reference allocator in lock-step: the three counts must equal the model after every transition; transparent restores leave them unchanged, full restores reset them. States are de-duplicated by the complete internal fingerprint + handles + checkpoints. Only first divergences are reported; diverged states are not expanded. Non-trivial = distinct states reached.".into();
    rep.assumptions.push("the heap-only model: +1 atom and +len bytes per new atom, +0 bytes for substrings, +1 pair per pair, new() = 2 atoms / 1 byte".into());
    rep.assumptions.push("API misuse (pairs passed to substr/concat, absurd concat sizes such as usize::MAX) is excluded from the alphabet; out-of-range substr bounds and off-by-one concat sizes are included and must be rejected without changing the state".into());
    rep
}
