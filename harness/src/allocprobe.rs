// Counting global allocator: per-thread bytes requested and largest single
// request, used by the totality / over-allocation oracles.
use std::alloc::{GlobalAlloc, Layout, System};
use std::cell::Cell;

pub struct Counting;

thread_local! {
    static BYTES: Cell<u64> = const { Cell::new(0) };
    static MAXREQ: Cell<u64> = const { Cell::new(0) };
}

unsafe impl GlobalAlloc for Counting {
    unsafe fn alloc(&self, l: Layout) -> *mut u8 {
        let _ = BYTES.try_with(|b| b.set(b.get().wrapping_add(l.size() as u64)));
        let _ = MAXREQ.try_with(|m| {
            if l.size() as u64 > m.get() {
                m.set(l.size() as u64)
            }
        });
        unsafe { System.alloc(l) }
    }
    unsafe fn dealloc(&self, p: *mut u8, l: Layout) {
        unsafe { System.dealloc(p, l) }
    }
    unsafe fn realloc(&self, p: *mut u8, l: Layout, n: usize) -> *mut u8 {
        let _ = BYTES.try_with(|b| b.set(b.get().wrapping_add(n as u64)));
        let _ = MAXREQ.try_with(|m| {
            if n as u64 > m.get() {
                m.set(n as u64)
            }
        });
        unsafe { System.realloc(p, l, n) }
    }
    unsafe fn alloc_zeroed(&self, l: Layout) -> *mut u8 {
        let _ = BYTES.try_with(|b| b.set(b.get().wrapping_add(l.size() as u64)));
        let _ = MAXREQ.try_with(|m| {
            if l.size() as u64 > m.get() {
                m.set(l.size() as u64)
            }
        });
        unsafe { System.alloc_zeroed(l) }
    }
}

pub fn reset() {
    BYTES.with(|b| b.set(0));
    MAXREQ.with(|b| b.set(0));
}
/// (total bytes requested, largest single request) since reset()
pub fn read() -> (u64, u64) {
    (BYTES.with(|b| b.get()), MAXREQ.with(|b| b.get()))
}
