// Case generators for the python leg (C26, C27, C28, C32, C22): the harness writes JSON-lines with the
// inputs and the Rust core's outcome; pyref/pyleg.py replays them through the freshly built wheel.
use crate::common::*;
use crate::domains::*;
use crate::progspace::*;
use crate::refserde::MAGIC;
use crate::tree::{self, T, TreeSpace, atom};
use clvmr::allocator::Allocator;
use clvmr::chia_dialect::{ChiaDialect, ClvmFlags, MEMPOOL_MODE};
use clvmr::error::EvalErr;
use clvmr::run_program::run_program;
use clvmr::serde::{node_from_bytes, node_from_bytes_backrefs, node_to_bytes, node_to_bytes_backrefs, parse_triples, serialize_2026, serialized_length_from_bytes, ParsedTriple};
use serde_json::{Value, json};
use std::io::Write;

fn target_dir() -> String {
    std::env::var("VH_BIN_DIR").unwrap_or_else(|_| "/verif/target".into())
}

/// what the wheel's run_serialized_chia_program must return for these inputs
pub fn rust_run(prog: &[u8], env: &[u8], budget: u64, word: u32) -> Value {
    let flags = ClvmFlags::from_bits_truncate(word);
    let mut a = if flags.contains(ClvmFlags::LIMIT_HEAP) { Allocator::new_limited(500000000) } else { Allocator::new() };
    let p = match node_from_bytes(&mut a, prog) {
        Ok(p) => p,
        Err(e) => return json!({"decode_error": e.to_string()}),
    };
    let e = match node_from_bytes(&mut a, env) {
        Ok(p) => p,
        Err(e) => return json!({"decode_error": e.to_string()}),
    };
    let d = ChiaDialect::new(flags);
    match run_program(&mut a, &d, p, e, budget) {
        Ok(r) => match node_to_bytes(&a, r.1) {
            Ok(b) => json!({"ok": true, "cost": r.0, "res": hx(&b)}),
            Err(_) => json!({"ok": true, "cost": r.0, "res": null}),
        },
        Err(err) => {
            let node = EvalErr::node_ptr(&err);
            let nb = node_to_bytes(&a, node).map(|b| hx(&b)).unwrap_or_default();
            json!({"ok": false, "err": err.to_string(), "node": nb})
        }
    }
}

pub fn gen_c26(ctx: &Ctx) -> Report {
    let mut rep = Report::new("C26", "exploration");
    let path = format!("{}/C26.{}.cases.jsonl", target_dir(), if ctx.quick() { "quick" } else { "thorough" });
    let mut f = std::io::BufWriter::new(std::fs::File::create(&path).unwrap());
    let ops = { let mut o = all_single_byte_ops(); o.extend(multibyte_ops()); o };
    let spaces: Vec<ProgSpace> = vec![
        p1("P1", ops, ctx.pick(vec![vec![], vec![1], vec![0x80], vec![0x00, 0x01]], a6()), vec![vec![2u8], vec![11]], 2),
        p5_thin(),
        p_vectors(ctx.pick(1, 4)),
        p4(ctx.pick(5, 20), false),
    ];
    let defined: Vec<u32> = vec![0x1, 0x2, 0x4, 0x8, 0x10, 0x20, 0x40, 0x100, 0x200, 0x400, 0x800, 0x1000, 0x2000];
    let mut words: Vec<u32> = (0..32).map(|b| 1u32 << b).collect();
    words.extend([0, MEMPOOL_MODE.bits(), 0xffff_ffff, 0xffff_c080, MEMPOOL_MODE.bits() | 0x2000]);
    let mut pair_words = vec![];
    for i in 0..defined.len() {
        for j in i + 1..defined.len() {
            pair_words.push(defined[i] | defined[j]);
        }
    }
    let mut n = 0u64;
    let stride = ctx.pick(7u64, 1);
    for sp in &spaces {
        for i in 0..sp.total {
            // thin the large spaces deterministically in the quick tier
            if sp.total > 2000 && i % stride != 0 {
                continue;
            }
            let (p, e) = sp.at(i);
            let (pb, eb) = (p.ser(), e.ser());
            let base = rust_run(&pb, &eb, 0, 0);
            let cost = base.get("cost").and_then(|c| c.as_u64());
            let mut budgets = vec![0u64, 1];
            if let Some(c) = cost {
                budgets.push(c);
                budgets.push(c.saturating_sub(1).max(1));
            }
            // every flag word at budget 0; budgets x a few words; pairs of defined bits on every 16th program
            let mut combos: Vec<(u64, u32)> = words.iter().map(|w| (0u64, *w)).collect();
            for b in &budgets {
                for w in [0u32, MEMPOOL_MODE.bits(), 0x2000] {
                    combos.push((*b, w));
                }
            }
            if i % 16 == 0 {
                combos.extend(pair_words.iter().map(|w| (0u64, *w)));
            }
            combos.sort();
            combos.dedup();
            for (b, w) in combos {
                let r = rust_run(&pb, &eb, b, w);
                writeln!(f, "{}", json!({"k": "run", "p": hx(&pb), "e": hx(&eb), "b": b, "f": w, "r": r})).unwrap();
                n += 1;
            }
        }
    }
    rep.acc.add("run_cases", n);
    // malformed serializations for the error path
    let bad: Vec<Vec<u8>> = vec![vec![], vec![0xff], vec![0xff, 0x01], vec![0x81], vec![0xfe, 0x01], vec![0xfc, 0, 0, 0, 0, 1], vec![0xc0, 0x40, 1, 2]];
    for b in &bad {
        for (p, e) in [(b.clone(), vec![0x80u8]), (vec![0x01u8], b.clone())] {
            let r = rust_run(&p, &e, 0, 0);
            writeln!(f, "{}", json!({"k": "run", "p": hx(&p), "e": hx(&e), "b": 0, "f": 0, "r": r})).unwrap();
            n += 1;
        }
    }
    // serializers / deserializers / LazyNode views
    let ts = TreeSpace::new(ctx.pick(3, 4), &atoms_t(&a6()));
    let mut m = 0u64;
    for i in 0..ts.total {
        let t = ts.get(i);
        let mut a = Allocator::new();
        let node = tree::build(&mut a, &t);
        let legacy = node_to_bytes(&a, node).unwrap();
        let br = node_to_bytes_backrefs(&a, node).unwrap();
        let s26 = serialize_2026(&a, node, 0).unwrap();
        writeln!(f, "{}", json!({"k": "ser", "legacy": hx(&legacy), "backrefs": hx(&br), "s2026": hx(&s26)})).unwrap();
        m += 1;
    }
    // every small-integer boundary (2^k - 1, 2^k, 2^k + 1 and their negatives, k <= 34) as an atom and inside a pair:
    // in-place atoms of every byte length, with and without a leading sign byte
    {
        let mut vals: Vec<i128> = vec![];
        for k in 0..=34u32 {
            for d in [-1i128, 0, 1] {
                vals.push((1i128 << k) + d);
                vals.push(-((1i128 << k) + d));
            }
        }
        vals.sort();
        vals.dedup();
        for v in vals {
            let at = crate::tree::int_atom(v);
            for t in [at.clone(), crate::tree::cons(at.clone(), crate::tree::atom(&[1]))] {
                let mut a = Allocator::new();
                let node = tree::build(&mut a, &t);
                let legacy = node_to_bytes(&a, node).unwrap();
                let br = node_to_bytes_backrefs(&a, node).unwrap();
                let s26 = serialize_2026(&a, node, 0).unwrap();
                writeln!(f, "{}", json!({"k": "ser", "legacy": hx(&legacy), "backrefs": hx(&br), "s2026": hx(&s26)})).unwrap();
                m += 1;
            }
        }
    }
    // byte strings through every deserializer
    let all = all_bytes();
    let l = ctx.pick(2usize, 3);
    let nb = count_bytes_upto(256, l);
    let bstride = ctx.pick(1u64, 37);
    let mut inputs: Vec<Vec<u8>> = vec![];
    for i in 0..nb {
        if l == 3 && i >= count_bytes_upto(256, 2) && i % bstride != 0 {
            continue;
        }
        let mut s = vec![];
        nth_bytes_upto(&all, l, i, &mut s);
        inputs.push(s);
    }
    // back-reference rich and 2026 inputs
    for extra in [vec![0xffu8, 0x86, b'f', b'o', b'o', b'b', b'a', b'r', 0xfe, 0x02], vec![0xff, 0x01, 0xfe, 0x01], vec![0xff, 0xff, 0x01, 0x02, 0xfe, 0x02]] {
        inputs.push(extra);
    }
    for i in 0..ts.total.min(2000) {
        let t = ts.get(i);
        let mut a = Allocator::new();
        let node = tree::build(&mut a, &t);
        let s26 = serialize_2026(&a, node, 0).unwrap();
        inputs.push(s26.clone());
        let mut tr = s26.clone();
        tr.pop();
        inputs.push(tr);
        let mut x = MAGIC.to_vec();
        x.extend_from_slice(&t.ser());
        inputs.push(x);
    }
    for s in &inputs {
        let dl = {
            let mut a = Allocator::new();
            node_from_bytes(&mut a, s).map(|n| hx(&tree::read_ser(&a, n))).map_err(|e| e.to_string())
        };
        let db = {
            let mut a = Allocator::new();
            node_from_bytes_backrefs(&mut a, s).map(|n| hx(&tree::read_ser(&a, n))).map_err(|e| e.to_string())
        };
        let d26 = {
            let mut a = Allocator::new();
            clvmr::serde::deserialize_2026(&mut a, s, 1 << 20, true).map(|n| hx(&tree::read_ser(&a, n))).map_err(|e| e.to_string())
        };
        let dauto = if s.starts_with(&MAGIC) { d26.clone() } else { db.clone() };
        let sl = serialized_length_from_bytes(s).map_err(|e| e.to_string());
        let tri = parse_triples(&mut std::io::Cursor::new(&s[..]), true).map(|(t, h)| {
            let tv: Vec<Value> = t.iter().map(|x| match x {
                ParsedTriple::Atom { start, end, atom_offset } => json!([start, end, atom_offset]),
                ParsedTriple::Pair { start, end, right_index } => json!([start, end, right_index]),
            }).collect();
            json!({"t": tv, "h": h.unwrap().iter().map(|x| hx(x)).collect::<Vec<_>>()})
        }).map_err(|e| e.to_string());
        let enc = |r: &Result<String, String>| match r { Ok(b) => json!({"ok": b}), Err(e) => json!({"err": e}) };
        writeln!(f, "{}", json!({"k": "deser", "b": hx(s), "legacy": enc(&dl), "backrefs": enc(&db), "d2026": enc(&d26), "auto": enc(&dauto),
            "len": match &sl { Ok(v) => json!({"ok": v}), Err(e) => json!({"err": e}) }, "tree": match &tri { Ok(v) => json!({"ok": v}), Err(e) => json!({"err": e}) }})).unwrap();
        m += 1;
    }
    rep.acc.add("serde_cases", m);
    f.flush().unwrap();
    rep.note("cases_file", json!(path));
    rep.evaluations = n + m;
    rep.nontrivial = 0; // counted by the python leg
    rep.states = n + m;
    rep.transitions = n + m;
    rep.traces = 0;
    rep.rule = "cases generated by the harness (see PYTHON LEG)".into();
    rep.extra_samples.push(json!({"run_case": {"p": "ff10ffff0101ffff010280", "e": "80", "b": 0, "f": 0, "r": rust_run(&hex::decode("ff10ffff0101ffff010280").unwrap(), &[0x80], 0, 0)}}));
    let _ = atom;
    rep
}

/// C27 / C28 / C32 / C22: the python leg enumerates its own spaces; the harness only provides shared inputs
pub fn gen_trees(ctx: &Ctx, pid: &str) -> Report {
    let mut rep = Report::new(pid, "exploration");
    let path = format!("{}/{pid}.{}.cases.jsonl", target_dir(), if ctx.quick() { "quick" } else { "thorough" });
    let mut f = std::io::BufWriter::new(std::fs::File::create(&path).unwrap());
    let ts = match pid {
        "C27" => TreeSpace::from_bytes(ctx.pick(4, 5), &[b"aaaa", b"bbbb", b""]),
        "C22" => TreeSpace::new(ctx.pick(3, 4), &atoms_t(&a6())),
        _ => TreeSpace::new(ctx.pick(4, 5), &atoms_t(&a6())),
    };
    for i in 0..ts.total {
        let t = ts.get(i);
        writeln!(f, "{}", json!({"k": "tree", "b": t.hex(), "h": hx(&crate::refsha::tree_hash(&t))})).unwrap();
    }
    // every small-integer boundary (2^k - 1, 2^k, 2^k + 1 and negatives, k <= 34) as an atom, in a pair and twice in a
    // list: atoms whose in-place / heap form and byte length change (C27, C28, C22 python arms)
    let mut extra = 0u64;
    if pid != "C32" {
        let mut vals: Vec<i128> = vec![];
        for k in 0..=34u32 {
            for d in [-1i128, 0, 1] {
                vals.push((1i128 << k) + d);
                vals.push(-((1i128 << k) + d));
            }
        }
        vals.sort();
        vals.dedup();
        for v in vals {
            let at = crate::tree::int_atom(v);
            for t in [at.clone(), crate::tree::cons(at.clone(), atom(&[1])), crate::tree::list(&[at.clone(), atom(b"aaaa"), at.clone()])] {
                writeln!(f, "{}", json!({"k": "tree", "b": t.hex(), "h": hx(&crate::refsha::tree_hash(&t))})).unwrap();
                extra += 1;
            }
        }
    }
    f.flush().unwrap();
    rep.note("cases_file", json!(path));
    rep.note("boundary_integer_trees", json!(extra));
    rep.evaluations = ts.total + extra;
    rep.states = ts.total;
    rep.transitions = ts.total;
    rep.rule = "inputs generated by the harness (see PYTHON LEG)".into();
    rep.extra_samples.push(json!({"tree": ts.get(ts.total / 2).hex()}));
    rep
}
