// Engine C — explicit-state BFS over Allocator API histories with a heap-only
// reference model in lock-step. Serves C12 (accounting), C13a (limits) and
// C14a (immutability).
use crate::common::*;
use crate::tree::int_bytes;
use clvmr::allocator::{Allocator, Checkpoint, MaybeRestore, NodePtr, SExp, TransparentCheckpoint};
use clvmr::error::EvalErr;
use num_bigint::BigInt;
use serde_json::json;
use std::collections::HashSet;
use std::rc::Rc;
use std::sync::Mutex;

pub const MAX_ATOMS: usize = 62_500_000;
pub const MAX_PAIRS: usize = 62_500_000;

#[derive(Clone, Debug)]
pub enum MNode {
    Atom(Rc<Vec<u8>>),
    Pair(NodePtr, NodePtr),
}

#[derive(Clone)]
pub struct Handle {
    pub ptr: NodePtr,
    pub node: MNode,
}

pub enum CpKind {
    Full(Checkpoint),
    Transparent(TransparentCheckpoint),
}
pub struct Cp {
    pub kind: CpKind,
    pub handles_len: usize,
    pub counts: (usize, usize, usize),
    pub phantom: usize,
    pub fp_lens: (usize, usize, usize),
}

#[derive(Clone)]
pub struct St {
    pub a: Allocator,
    pub handles: Vec<Handle>, // valid handles in creation order (nil/one are implicit)
    pub cps: Vec<Rc<Cp>>,
    pub m_atoms: usize,
    pub m_pairs: usize,
    pub m_heap: usize,
    pub phantom: usize,
    pub heap_limit: usize,
}

#[derive(Clone, Debug)]
pub enum Op {
    NewAtom(Vec<u8>),
    SmallNumber(u32),
    U64(u64),
    I64(i64),
    Number(i128),
    Malachite(i128),
    Pair(usize, usize),          // window slots
    Substr(usize, u32, u32),     // window slot
    Concat(isize, Vec<usize>),   // size delta relative to the right size, window slots
    Checkpoint,
    TCheckpoint,
    Restore(usize),              // index into cps
    MaybeRestore(usize, usize),  // cp index, window slot
    GhostAtom,
    GhostPair,
    RemoveGhostPair,
}

pub struct Alphabet {
    pub atoms: Vec<Vec<u8>>,
    pub small: Vec<u32>,
    pub ints: bool,
    pub concat_len: usize,
    pub window: usize,
    pub max_cps: usize,
}

impl Alphabet {
    pub fn full() -> Self {
        let mut atoms = crate::domains::a12();
        atoms.push(vec![0x61; 49]);
        atoms.push(vec![0x62; 1100]);
        Alphabet { atoms, small: vec![0, 1, 0x7f, 0x80, 0x8001, (1 << 26) - 1], ints: true, concat_len: 2, window: 4, max_cps: 2 }
    }
    pub fn thin() -> Self {
        let mut atoms = crate::domains::a6();
        atoms.push(vec![0x62; 1100]);
        atoms.push(vec![0x04, 0, 0, 0]);
        Alphabet { atoms, small: vec![0x8001, 0x80], ints: false, concat_len: 2, window: 3, max_cps: 1 }
    }
}

impl St {
    pub fn new(a: Allocator, heap_limit: usize) -> St {
        let (m_atoms, m_pairs, m_heap) = (a.atom_count(), a.pair_count(), a.heap_size());
        St { a, handles: vec![], cps: vec![], m_atoms, m_pairs, m_heap, phantom: 0, heap_limit }
    }
    /// window: slot 0 = nil, 1 = one, then the most recent valid handles (most recent first)
    pub fn window(&self, w: usize) -> Vec<Handle> {
        let mut v = vec![
            Handle { ptr: NodePtr::NIL, node: MNode::Atom(Rc::new(vec![])) },
            Handle { ptr: self.a.one(), node: MNode::Atom(Rc::new(vec![1])) },
        ];
        for h in self.handles.iter().rev().take(w) {
            v.push(h.clone());
        }
        v
    }
    pub fn ops(&self, al: &Alphabet) -> Vec<Op> {
        let mut v = vec![];
        for b in &al.atoms {
            v.push(Op::NewAtom(b.clone()));
        }
        for s in &al.small {
            v.push(Op::SmallNumber(*s));
        }
        if al.ints {
            for x in [0u64, 0x7f, 0x80, 1 << 26, 1 << 63, u64::MAX] {
                v.push(Op::U64(x));
            }
            for x in [-1i64, -128, -129, i64::MIN, (1 << 26) - 1] {
                v.push(Op::I64(x));
            }
            for x in [0i128, -1, 1 << 26, 1 << 64, -(1 << 64)] {
                v.push(Op::Number(x));
            }
            for x in [0i128, -129, 1 << 64] {
                v.push(Op::Malachite(x));
            }
        }
        let w = self.window(al.window);
        for i in 0..w.len() {
            for j in 0..w.len() {
                v.push(Op::Pair(i, j));
            }
        }
        for (i, h) in w.iter().enumerate() {
            if let MNode::Atom(b) = &h.node {
                let len = b.len() as u32;
                if len <= 5 {
                    for s in 0..=len {
                        for e in s..=len {
                            v.push(Op::Substr(i, s, e));
                        }
                    }
                    v.push(Op::Substr(i, len + 1, len + 1));
                    v.push(Op::Substr(i, 0, len + 1));
                    if len >= 1 {
                        v.push(Op::Substr(i, 1, 0));
                    }
                } else {
                    v.push(Op::Substr(i, 0, len));
                    v.push(Op::Substr(i, 1, 3));
                    v.push(Op::Substr(i, len, len));
                    v.push(Op::Substr(i, 0, len + 1));
                }
            }
        }
        // concat lists over atom slots among: nil + 3 most recent atoms in the window
        let cand: Vec<usize> = w.iter().enumerate().filter(|(i, h)| *i != 1 && matches!(h.node, MNode::Atom(_))).map(|(i, _)| i).take(4).collect();
        let mut lists: Vec<Vec<usize>> = vec![vec![]];
        let mut cur: Vec<Vec<usize>> = vec![vec![]];
        for _ in 0..al.concat_len {
            let mut nx = vec![];
            for l in &cur {
                for c in &cand {
                    let mut q = l.clone();
                    q.push(*c);
                    nx.push(q);
                }
            }
            lists.extend(nx.iter().cloned());
            cur = nx;
        }
        for l in lists {
            let right: usize = l.iter().map(|i| if let MNode::Atom(b) = &w[*i].node { b.len() } else { 0 }).sum();
            v.push(Op::Concat(0, l.clone()));
            v.push(Op::Concat(1, l.clone()));
            if right > 0 {
                v.push(Op::Concat(-1, l));
            }
        }
        let nfull = self.cps.iter().filter(|c| matches!(c.kind, CpKind::Full(_))).count();
        let ntr = self.cps.len() - nfull;
        if nfull < al.max_cps {
            v.push(Op::Checkpoint);
        }
        if ntr < al.max_cps {
            v.push(Op::TCheckpoint);
        }
        for (ci, c) in self.cps.iter().enumerate() {
            v.push(Op::Restore(ci));
            if matches!(c.kind, CpKind::Transparent(_)) {
                for i in 0..w.len() {
                    v.push(Op::MaybeRestore(ci, i));
                }
            }
        }
        v.push(Op::GhostAtom);
        v.push(Op::GhostPair);
        if self.phantom >= 1 {
            v.push(Op::RemoveGhostPair);
        }
        v
    }
}

#[derive(Default, Clone, Copy)]
pub struct Modes {
    pub limits: bool, // C13: judge failure conditions exactly and "unchanged on failure"
}

pub enum StepResult {
    Ok,
    Diverged(String),
    /// a divergence that is exactly the classified known defect: (canonical id, detail)
    Known(String, String),
}

fn fits_small(b: &[u8]) -> Option<u32> {
    // independent: minimal two's complement encoding of 0 <= v < 2^26
    if b.is_empty() {
        return Some(0);
    }
    if b.len() > 4 {
        return None;
    }
    let mut v: i128 = if b[0] & 0x80 != 0 { -1 } else { 0 };
    for x in b {
        v = (v << 8) | *x as i128;
    }
    if v < 0 || v >= (1 << 26) {
        return None;
    }
    if int_bytes(v) != b {
        return None;
    }
    Some(v as u32)
}

/// apply `op` to the state (real allocator and model), compare. Returns a divergence description.
pub fn step(st: &mut St, op: &Op, al: &Alphabet, modes: Modes, acc: &mut Acc) -> StepResult {
    let w = st.window(al.window);
    let before_fp = if modes.limits { Some(st.a.verif_fingerprint()) } else { None };
    let before_counts = (st.a.atom_count(), st.a.pair_count(), st.a.heap_size());
    // model prediction: (new node content, d_atoms, d_pairs, d_heap) or expected failure
    enum Exp {
        Node(MNode, usize, usize, usize),
        Misuse,        // API misuse: must fail with some error and leave state unchanged
        Special,
    }
    let atom_exp = |b: Vec<u8>| {
        let n = b.len();
        Exp::Node(MNode::Atom(Rc::new(b)), 1, 0, n)
    };
    let exp = match op {
        Op::NewAtom(b) => atom_exp(b.clone()),
        Op::SmallNumber(v) => atom_exp(int_bytes(*v as i128)),
        Op::U64(v) => atom_exp(int_bytes(*v as i128)),
        Op::I64(v) => atom_exp(int_bytes(*v as i128)),
        Op::Number(v) | Op::Malachite(v) => atom_exp(int_bytes(*v)),
        Op::Pair(i, j) => Exp::Node(MNode::Pair(w[*i].ptr, w[*j].ptr), 0, 1, 0),
        Op::Substr(i, s, e) => match &w[*i].node {
            MNode::Atom(b) => {
                if *s as usize > b.len() || *e as usize > b.len() || e < s {
                    Exp::Misuse
                } else {
                    Exp::Node(MNode::Atom(Rc::new(b[*s as usize..*e as usize].to_vec())), 1, 0, 0)
                }
            }
            _ => Exp::Misuse,
        },
        Op::Concat(d, l) => {
            let mut bytes = vec![];
            for i in l {
                if let MNode::Atom(b) = &w[*i].node {
                    bytes.extend_from_slice(b);
                }
            }
            if *d != 0 { Exp::Misuse } else { atom_exp(bytes) }
        }
        _ => Exp::Special,
    };
    // run the real operation
    let real: Result<Option<NodePtr>, EvalErr> = match op {
        Op::NewAtom(b) => st.a.new_atom(b).map(Some),
        Op::SmallNumber(v) => st.a.new_small_number(*v).map(Some),
        Op::U64(v) => st.a.new_u64(*v).map(Some),
        Op::I64(v) => st.a.new_i64(*v).map(Some),
        Op::Number(v) => st.a.new_number(BigInt::from(*v)).map(Some),
        Op::Malachite(v) => st.a.new_malachite_number(malachite_bigint::BigInt::from(*v)).map(Some),
        Op::Pair(i, j) => st.a.new_pair(w[*i].ptr, w[*j].ptr).map(Some),
        Op::Substr(i, s, e) => st.a.new_substr(w[*i].ptr, *s, *e).map(Some),
        Op::Concat(d, l) => {
            let right: usize = l.iter().map(|i| if let MNode::Atom(b) = &w[*i].node { b.len() } else { 0 }).sum();
            let n = (right as isize + d) as usize;
            let ptrs: Vec<NodePtr> = l.iter().map(|i| w[*i].ptr).collect();
            st.a.new_concat(n, &ptrs).map(Some)
        }
        Op::Checkpoint => {
            let cp = st.a.checkpoint();
            let f = st.a.verif_fingerprint();
            st.cps.push(Rc::new(Cp { kind: CpKind::Full(cp), handles_len: st.handles.len(), counts: (st.m_atoms, st.m_pairs, st.m_heap), phantom: st.phantom, fp_lens: (f.0.len(), f.1.len(), f.2.len()) }));
            Ok(None)
        }
        Op::TCheckpoint => {
            let cp = st.a.transparent_checkpoint();
            let f = st.a.verif_fingerprint();
            st.cps.push(Rc::new(Cp { kind: CpKind::Transparent(cp), handles_len: st.handles.len(), counts: (st.m_atoms, st.m_pairs, st.m_heap), phantom: st.phantom, fp_lens: (f.0.len(), f.1.len(), f.2.len()) }));
            Ok(None)
        }
        Op::Restore(ci) => {
            let cp = st.cps[*ci].clone();
            match &cp.kind {
                CpKind::Full(c) => {
                    st.a.restore_checkpoint(c);
                    st.m_atoms = cp.counts.0;
                    st.m_pairs = cp.counts.1;
                    st.m_heap = cp.counts.2;
                    st.phantom = cp.phantom;
                    acc.inc("full_restores");
                }
                CpKind::Transparent(c) => {
                    st.a.restore_transparent_checkpoint(c);
                    acc.inc("transparent_restores");
                }
            }
            st.handles.truncate(cp.handles_len);
            st.cps.truncate(*ci + 1);
            Ok(None)
        }
        Op::MaybeRestore(ci, i) => {
            let cp = st.cps[*ci].clone();
            let CpKind::Transparent(c) = &cp.kind else { unreachable!() };
            let h = w[*i].clone();
            // is h older than the checkpoint (per model)? nil/one always are
            let pos = st.handles.iter().position(|x| x.ptr == h.ptr && *i >= 2);
            match st.a.maybe_restore_with_node(c, h.ptr) {
                Ok(MaybeRestore::Aborted) => {
                    acc.inc("maybe_restore_aborted");
                    Ok(None)
                }
                Ok(MaybeRestore::NoReplace) => {
                    acc.inc("maybe_restore_noreplace");
                    // h must still be valid: it must predate the checkpoint (or be inline)
                    st.handles.truncate(cp.handles_len);
                    st.cps.truncate(*ci + 1);
                    if let Some(p) = pos {
                        if p >= cp.handles_len {
                            // inline atoms survive a restore by construction; re-register so its content stays checked
                            st.handles.push(h.clone());
                        }
                    }
                    Ok(None)
                }
                Ok(MaybeRestore::Replace(n)) => {
                    acc.inc("maybe_restore_replace");
                    st.handles.truncate(cp.handles_len);
                    st.cps.truncate(*ci + 1);
                    st.handles.push(Handle { ptr: n, node: h.node.clone() });
                    Ok(None)
                }
                Err(e) => Err(e),
            }
        }
        Op::GhostAtom => st.a.add_ghost_atom(1).map(|_| None),
        Op::GhostPair => st.a.add_ghost_pair(1).map(|_| None),
        Op::RemoveGhostPair => st.a.remove_ghost_pair(1).map(|_| None),
    };
    // model bookkeeping + comparison
    let mut problems: Vec<String> = vec![];
    match (&exp, &real) {
        (Exp::Node(node, da, dp, dh), r) => {
            // would a cap be exceeded?
            let over_atoms = st.m_atoms + da > MAX_ATOMS;
            let over_pairs = st.m_pairs + dp > MAX_PAIRS;
            let over_heap = st.m_heap + dh > st.heap_limit;
            match r {
                Ok(Some(p)) => {
                    if modes.limits && (over_atoms || over_pairs || over_heap) {
                        problems.push(format!("operation succeeded although a cap would be exceeded (atoms {}+{da}, pairs {}+{dp}, heap {}+{dh} limit {})", st.m_atoms, st.m_pairs, st.m_heap, st.heap_limit));
                    }
                    st.m_atoms += da;
                    st.m_pairs += dp;
                    st.m_heap += dh;
                    st.handles.push(Handle { ptr: *p, node: node.clone() });
                    acc.inc("ok_allocations");
                }
                Err(e) => {
                    let expected_err = match e {
                        EvalErr::TooManyAtoms => over_atoms,
                        EvalErr::TooManyPairs => over_pairs,
                        EvalErr::OutOfMemory => over_heap,
                        _ => false,
                    };
                    if !expected_err {
                        if modes.limits || !(over_atoms || over_pairs || over_heap) {
                            problems.push(format!("operation failed with '{e}' but the model does not exceed the matching cap (atoms {}+{da}, pairs {}+{dp}, heap {}+{dh} limit {})", st.m_atoms, st.m_pairs, st.m_heap, st.heap_limit));
                        }
                    } else {
                        acc.inc("cap_failures");
                    }
                    if let Some(fp) = &before_fp {
                        if *fp != st.a.verif_fingerprint() {
                            problems.push("failed allocation changed the allocator state".into());
                        }
                    }
                }
                Ok(None) => unreachable!(),
            }
        }
        (Exp::Misuse, r) => {
            match r {
                Ok(_) => problems.push("API misuse (out-of-range substr / wrong concat size) succeeded".into()),
                Err(EvalErr::TooManyAtoms) | Err(EvalErr::OutOfMemory) | Err(_) => acc.inc("misuse_rejected"),
            }
            if before_counts != (st.a.atom_count(), st.a.pair_count(), st.a.heap_size()) {
                problems.push("rejected call changed the counts".into());
            }
            if let Some(fp) = &before_fp {
                if *fp != st.a.verif_fingerprint() {
                    problems.push("rejected call changed the allocator state".into());
                }
            }
        }
        (Exp::Special, r) => match (op, r) {
            (Op::GhostAtom, Ok(_)) => {
                if modes.limits && st.m_atoms + 1 > MAX_ATOMS {
                    problems.push("add_ghost_atom succeeded beyond the cap".into());
                }
                st.m_atoms += 1
            }
            (Op::GhostAtom, Err(e)) => {
                if !(matches!(e, EvalErr::TooManyAtoms) && st.m_atoms + 1 > MAX_ATOMS) {
                    problems.push(format!("add_ghost_atom failed with '{e}' at model count {}", st.m_atoms));
                } else {
                    acc.inc("cap_failures");
                }
            }
            (Op::GhostPair, Ok(_)) => {
                if modes.limits && st.m_pairs + 1 > MAX_PAIRS {
                    problems.push("add_ghost_pair succeeded beyond the cap".into());
                }
                st.m_pairs += 1;
                st.phantom += 1;
            }
            (Op::GhostPair, Err(e)) => {
                if !(matches!(e, EvalErr::TooManyPairs) && st.m_pairs + 1 > MAX_PAIRS) {
                    problems.push(format!("add_ghost_pair failed with '{e}' at model count {}", st.m_pairs));
                } else {
                    acc.inc("cap_failures");
                }
            }
            (Op::RemoveGhostPair, Ok(_)) => {
                st.m_pairs -= 1;
                st.phantom -= 1;
            }
            (_, Err(e)) => problems.push(format!("checkpoint/restore operation failed: {e}")),
            _ => {}
        },
    }
    // the three counts against the model
    let (ra, rp, rh) = (st.a.atom_count(), st.a.pair_count(), st.a.heap_size());
    // classification of one specific defect (known finding F-C12-substr-inline): new_substr on an
    // in-place small atom whose slice is not a canonical small integer copies the slice into the
    // heap and counts it. Identified by call site + input: (parent bytes, start, end).
    if let Op::Substr(i, s, e) = op {
        if let (MNode::Atom(pb), true) = (&w[*i].node, problems.is_empty()) {
            let inline = w[*i].ptr.object_type() == clvmr::allocator::ObjectType::SmallAtom;
            let in_range = (*s as usize) <= pb.len() && (*e as usize) <= pb.len() && s <= e;
            if inline && in_range && real.is_ok() {
                let slice = &pb[*s as usize..*e as usize];
                if fits_small(slice).is_none() && (ra, rp) == (st.m_atoms, st.m_pairs) && rh == st.m_heap + slice.len() {
                    let canon = format!("new_substr on in-place atom {} start={s} end={e}: non-canonical slice copied to the heap and counted", hx(pb));
                    if !modes.limits {
                        // re-synchronise the model so that exploration continues past the known defect
                        st.m_heap = rh;
                    }
                    return StepResult::Known(canon, format!("heap_size {} but the heap-only model has {} (substrings share their parent's bytes)", rh, rh - slice.len()));
                }
            }
        }
    }
    if (ra, rp, rh) != (st.m_atoms, st.m_pairs, st.m_heap) {
        problems.push(format!("counts (atoms,pairs,heap) = ({ra},{rp},{rh}) but the heap-only model has ({},{},{})", st.m_atoms, st.m_pairs, st.m_heap));
    }
    if ra > MAX_ATOMS || rp > MAX_PAIRS || rh > st.heap_limit {
        problems.push(format!("a count exceeds its cap: atoms {ra} pairs {rp} heap {rh} limit {}", st.heap_limit));
    }
    // C14: every valid handle still reads back the model content
    for h in st.handles.iter() {
        match (&h.node, st.a.sexp(h.ptr)) {
            (MNode::Atom(b), SExp::Atom) => {
                let got = st.a.atom(h.ptr);
                if got.as_ref() != &b[..] {
                    problems.push(format!("atom handle changed: model {} real {}", hx(b), hx(got.as_ref())));
                }
                if st.a.atom_len(h.ptr) != b.len() {
                    problems.push("atom_len differs".into());
                }
                if st.a.small_number(h.ptr) != fits_small(b) {
                    problems.push(format!("small_number({}) = {:?}, expected {:?}", hx(b), st.a.small_number(h.ptr), fits_small(b)));
                }
                let exp_num = if b.is_empty() { BigInt::from(0) } else { BigInt::from_signed_bytes_be(b) };
                if st.a.number(h.ptr) != exp_num {
                    problems.push(format!("number() differs for {}", hx(b)));
                }
            }
            (MNode::Pair(l, r), SExp::Pair(rl, rr)) => {
                if (*l, *r) != (rl, rr) {
                    problems.push("pair children changed".into());
                }
            }
            _ => problems.push("node kind changed".into()),
        }
    }
    // atom_eq agrees with byte equality on all live atom handles (incl. nil/one)
    let live = st.window(64);
    for x in live.iter() {
        for y in live.iter() {
            if let (MNode::Atom(bx), MNode::Atom(by)) = (&x.node, &y.node) {
                if st.a.atom_eq(x.ptr, y.ptr) != (bx == by) {
                    problems.push(format!("atom_eq({}, {}) != byte equality", hx(bx), hx(by)));
                }
            }
        }
    }
    if problems.is_empty() { StepResult::Ok } else { StepResult::Diverged(problems.join("; ")) }
}

pub fn key(st: &St, depth_left: usize) -> u128 {
    let fp = st.a.verif_fingerprint();
    let mut h1 = fnv(&fp.0);
    let mut h2 = 0x1234567u64;
    let mut mix = |x: u64| {
        h1 = (h1 ^ x).wrapping_mul(0x100000001b3);
        h2 = (h2.rotate_left(13) ^ x).wrapping_mul(0x9e3779b97f4a7c15);
    };
    for (s, e) in &fp.1 {
        mix(((*s as u64) << 32) | *e as u64);
    }
    mix(0xaaaa);
    for (s, e) in &fp.2 {
        mix(((*s as u64) << 32) | *e as u64);
    }
    for g in fp.3 {
        mix(g as u64);
    }
    mix(0xbbbb);
    for h in &st.handles {
        // raw identity of the handle: kind + index via Debug-free route: use atom/pair view
        let raw = match st.a.sexp(h.ptr) {
            SExp::Pair(..) => 0x8000_0000_0000_0000u64 | h.ptr.index() as u64,
            SExp::Atom => ((h.ptr.object_type() as u64) << 40) | h.ptr.index() as u64,
        };
        mix(raw);
    }
    mix(0xcccc);
    for c in &st.cps {
        mix(match c.kind { CpKind::Full(_) => 1, CpKind::Transparent(_) => 2 });
        mix(c.handles_len as u64);
        mix(c.fp_lens.0 as u64);
        mix(c.fp_lens.1 as u64);
        mix(c.fp_lens.2 as u64);
        mix(c.counts.0 as u64);
        mix(c.counts.1 as u64);
        mix(c.counts.2 as u64);
        mix(c.phantom as u64);
    }
    mix(st.m_atoms as u64);
    mix(st.m_pairs as u64);
    mix(st.m_heap as u64);
    mix(st.phantom as u64);
    mix(depth_left as u64);
    ((h1 as u128) << 64) | h2 as u128
}

pub struct BfsResult {
    pub states: u64,
    pub transitions: u64,
    pub per_depth: Vec<(u64, u64)>,
    pub acc: Acc,
}

/// Breadth-first search. Frontier entries are operation-index histories; states are rebuilt
/// by replay in the worker (the real object is never shared between threads).
pub fn bfs<F>(ctx: &Ctx, init: F, init_desc: &str, al: &Alphabet, depth: usize, modes: Modes, state_cap: u64) -> BfsResult
where
    F: Fn() -> St + Sync,
{
    const SHARDS: usize = 256;
    let seen: Vec<Mutex<HashSet<u128>>> = (0..SHARDS).map(|_| Mutex::new(HashSet::new())).collect();
    let mut frontier: Vec<Vec<u16>> = vec![vec![]];
    let mut total = Acc::default();
    let mut states = 1u64;
    let mut transitions = 0u64;
    let mut per_depth = vec![];
    let seed = ctx.seed;
    for d in 0..depth {
        let next: Mutex<Vec<Vec<u16>>> = Mutex::new(vec![]);
        let fr = &frontier;
        let last = d + 1 == depth;
        let acc = par_for(ctx, fr.len() as u64, 16, |i| format!("{init_desc} history {:?}", fr[i as usize]), |i, acc| {
            let hist = &fr[i as usize];
            // rebuild
            let mut st = init();
            let mut trace: Vec<String> = vec![];
            let mut scratch = Acc::default();
            for oi in hist {
                let ops = st.ops(al);
                let op = &ops[*oi as usize];
                trace.push(format!("{op:?}"));
                match step(&mut st, op, al, modes, &mut scratch) {
                    StepResult::Diverged(m) => {
                        acc.violation(format!("REPLAY-DIVERGED {init_desc} {}", trace.join(" ; ")), m);
                        return;
                    }
                    StepResult::Known(..) | StepResult::Ok => {}
                }
            }
            let ops = st.ops(al);
            let mut local_next = vec![];
            for (oi, op) in ops.iter().enumerate() {
                let mut s2 = st.clone();
                acc.inc("transitions");
                match step(&mut s2, op, al, modes, acc) {
                    StepResult::Diverged(m) => {
                        // first divergence: report, do not expand
                        let mut t = trace.clone();
                        t.push(format!("{op:?}"));
                        acc.violation(format!("{init_desc} {}", t.join(" ; ")), m);
                        acc.inc("first_divergences");
                    }
                    r @ (StepResult::Ok | StepResult::Known(..)) => {
                        if let StepResult::Known(canon, detail) = r {
                            let mut t = trace.clone();
                            t.push(format!("{op:?}"));
                            // one violation per distinct (call site, input); the history is kept as detail
                            acc.violation(canon, format!("{detail}; first seen at: {init_desc} {}", t.join(" ; ")));
                            acc.inc("known_class_divergences");
                            if modes.limits {
                                continue; // limit enforcement past this defect is not judged
                            }
                        }
                        let k = key(&s2, depth - d - 1);
                        let shard = (k as usize) % SHARDS;
                        let fresh = seen[shard].lock().unwrap().insert(k);
                        if fresh {
                            acc.inc("new_states");
                            if !last {
                                let mut h2 = hist.clone();
                                h2.push(oi as u16);
                                local_next.push(h2);
                            }
                            let sk = sample_key(seed, k as u64);
                            acc.maybe_sample(sk, || {
                                let mut t = trace.clone();
                                t.push(format!("{op:?}"));
                                json!({"init": init_desc, "history": t, "counts": [s2.m_atoms, s2.m_pairs, s2.m_heap]})
                            });
                        }
                    }
                }
            }
            if !local_next.is_empty() {
                next.lock().unwrap().extend(local_next);
            }
        });
        let t = acc.get("transitions");
        let ns = acc.get("new_states");
        transitions += t;
        states += ns;
        per_depth.push((ns, t));
        total.merge(acc);
        frontier = next.into_inner().unwrap();
        // deterministic order for the next level regardless of scheduling
        frontier.sort();
        if states > state_cap {
            set_capped();
            break;
        }
        if frontier.is_empty() {
            break;
        }
    }
    BfsResult { states, transitions, per_depth, acc: total }
}
