// Reference decoders for the back-reference format (written from
// docs/compressed-serialization.md) and the 2026 format (docs/serde-2026.md).
use crate::tree::{self, T, cons, nil};

/// CLVM environment lookup: bits from least significant, last 1-bit terminates.
/// Err(()) = path into atom.
pub fn path_lookup(env: &T, path: &[u8]) -> Result<T, ()> {
    let mut first = 0;
    while first < path.len() && path[first] == 0 {
        first += 1;
    }
    if first == path.len() {
        return Ok(nil());
    }
    // total significant bits below the terminator
    let top = path[first];
    let top_bits = 8 - top.leading_zeros() as usize; // position of msb (1..8)
    let nbits = (path.len() - first - 1) * 8 + (top_bits - 1);
    let mut cur = env.clone();
    for i in 0..nbits {
        let byte = path[path.len() - 1 - i / 8];
        let bit = (byte >> (i % 8)) & 1;
        cur = match &cur {
            T::P(l, r) => {
                if bit == 1 {
                    (**r).clone()
                } else {
                    (**l).clone()
                }
            }
            T::A(_) => return Err(()),
        };
    }
    Ok(cur)
}

pub struct BrDecoded {
    pub tree: T,
    pub consumed: usize,
    /// pairs the legacy (cons-list stack) decoder allocates: one per pushed
    /// value, two per cons
    pub legacy_pairs: u64,
    pub backrefs: u64,
}

pub fn deser_backrefs(buf: &[u8]) -> Option<BrDecoded> {
    enum Op {
        Parse,
        Cons,
    }
    let mut ops = vec![Op::Parse];
    let mut vals: Vec<T> = vec![];
    let mut pos = 0usize;
    let mut pairs = 0u64;
    let mut backrefs = 0u64;
    while let Some(op) = ops.pop() {
        match op {
            Op::Parse => {
                let b = *buf.get(pos)?;
                pos += 1;
                if b == 0xff {
                    ops.push(Op::Cons);
                    ops.push(Op::Parse);
                    ops.push(Op::Parse);
                } else if b == 0xfe {
                    let pb = *buf.get(pos)?;
                    pos += 1;
                    // the path is an atom token (0xff / 0xfe are not atoms)
                    if pb == 0xff {
                        return None;
                    }
                    let (p, np) = tree::deser_atom_after_first(buf, pos, pb)?;
                    pos = np;
                    let mut env = nil();
                    for v in vals.iter() {
                        env = cons(v.clone(), env);
                    }
                    let r = path_lookup(&env, p.bytes().unwrap()).ok()?;
                    vals.push(r);
                    pairs += 1;
                    backrefs += 1;
                } else {
                    let (a, np) = tree::deser_atom_after_first(buf, pos, b)?;
                    pos = np;
                    vals.push(a);
                    pairs += 1;
                }
            }
            Op::Cons => {
                let r = vals.pop()?;
                let l = vals.pop()?;
                vals.push(cons(l, r));
                pairs += 2;
            }
        }
    }
    Some(BrDecoded {
        tree: vals.pop()?,
        consumed: pos,
        legacy_pairs: pairs,
        backrefs,
    })
}

// ---------------------------------------------------------------------
// 2026 format reference decoder (body only; the caller strips the magic prefix)
use crate::props::c21::ref_decode as varint_decode;

pub const MAGIC: [u8; 6] = [0xfd, 0xff, b'2', b'0', b'2', b'6'];

fn rv(buf: &[u8], pos: &mut usize, strict: bool) -> Option<i64> {
    let (v, n, shortest) = varint_decode(&buf[*pos..])?;
    if strict && !shortest {
        return None;
    }
    *pos += n;
    Some(v)
}

/// returns (tree, bytes consumed of body); None = reject
pub fn deser_2026_body(buf: &[u8], max_atom_len: u64, strict: bool) -> Option<(T, usize)> {
    let mut pos = 0usize;
    let groups = rv(buf, &mut pos, strict)?;
    if groups < 0 {
        return None;
    }
    let mut atoms: Vec<T> = vec![];
    for _ in 0..groups {
        let h = rv(buf, &mut pos, strict)?;
        let (len, count) = if h < 0 {
            let c = rv(buf, &mut pos, strict);
            // the implementation checks the length bound before reading the count
            if (-(h as i128)) as u128 > max_atom_len as u128 {
                return None;
            }
            let c = c?;
            if c < 0 {
                return None;
            }
            ((-(h as i128)) as u64, c as u64)
        } else {
            if h as u64 > max_atom_len {
                return None;
            }
            (h as u64, 1u64)
        };
        if len == 0 || count == 0 {
            return None;
        }
        for _ in 0..count {
            if ((buf.len() - pos) as u64) < len {
                return None;
            }
            atoms.push(tree::atom(&buf[pos..pos + len as usize]));
            pos += len as usize;
        }
    }
    let ic = rv(buf, &mut pos, strict)?;
    if ic <= 0 {
        return None;
    }
    let mut pairs: Vec<T> = vec![];
    let mut stack: Vec<T> = vec![];
    for _ in 0..ic {
        let inst = rv(buf, &mut pos, strict)?;
        match inst {
            0 => stack.push(nil()),
            1 => {
                let r = stack.pop()?;
                let l = stack.pop()?;
                let p = cons(l, r);
                pairs.push(p.clone());
                stack.push(p);
            }
            -1 => {
                let l = stack.pop()?;
                let r = stack.pop()?;
                let p = cons(l, r);
                pairs.push(p.clone());
                stack.push(p);
            }
            n if n >= 2 => stack.push(atoms.get((n - 2) as usize)?.clone()),
            n => stack.push(pairs.get((-(n as i128) - 2) as usize)?.clone()),
        }
    }
    if stack.len() != 1 {
        return None;
    }
    Some((stack.pop().unwrap(), pos))
}
