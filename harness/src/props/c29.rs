// C29 — size-limited serializers fail exactly at the limit with out-of-memory.
use crate::common::*;
use crate::domains::*;
use crate::tree::{Builder, Enc, Sharing, TreeSpace, atom};
use clvmr::allocator::Allocator;
use clvmr::error::EvalErr;
use clvmr::serde::{node_to_bytes_backrefs, node_to_bytes_backrefs_limit, node_to_bytes_limit};
use serde_json::json;

pub fn run(ctx: &Ctx) -> Report {
    let mut rep = Report::new("C29", "exploration");
    let seed = ctx.seed;
    let mut alpha = a6();
    alpha.push((0..100u8).map(|i| i.wrapping_mul(7) | 1).collect());
    alpha.push(vec![0x41; 40]);
    let k = ctx.pick(3, 4);
    let ts = TreeSpace::new(k, &atoms_t(&alpha));
    // plus backref-rich trees: TREES(5, {nil, 01, 40-byte}) hashconsed
    let ts2 = TreeSpace::new(ctx.pick(4, 6), &[atom(&[]), atom(&[1]), atom(&[0x41; 40])]);
    let total = ts.total + ts2.total;
    let acc = par_for(ctx, total, 16, |i| format!("tree#{i}"), |i, acc| {
        thread_local! { static A: std::cell::RefCell<Allocator> = std::cell::RefCell::new(Allocator::new()); }
        let (t, sh) = if i < ts.total { (ts.get(i), Sharing::Fresh) } else { (ts2.get(i - ts.total), Sharing::HashCons) };
        let classic = t.ser();
        A.with(|a| {
            let a = &mut a.borrow_mut();
            let cp = a.checkpoint();
            let n = Builder::new(sh, Enc::Inline).build(a, &t);
            let probe_nil = a.nil();
            let one = a.one();
            let probe_pair = a.new_pair(one, probe_nil).unwrap();
            let br = node_to_bytes_backrefs(a, n).expect("unlimited backref serialization");
            if br.len() < classic.len() {
                acc.inc("trees_with_backrefs");
            }
            for (which, full) in [("classic", &classic), ("backrefs", &br)] {
                for limit in 0..=full.len() + 1 {
                    let r = if which == "classic" { node_to_bytes_limit(a, n, limit) } else { node_to_bytes_backrefs_limit(a, n, limit) };
                    acc.inc("evaluations");
                    let canon = format!("{which} tree={} sharing={sh:?} limit={limit}", hx(&classic));
                    if limit >= full.len() {
                        match r {
                            Ok(b) if &b == full => acc.inc("at_or_above_limit_ok"),
                            o => acc.violation(canon, format!("limit {limit} >= len {}: got {:?}", full.len(), o.map(|b| hx(&b)))),
                        }
                    } else {
                        // history: a FAILED limited call must leave nothing behind — right after it, a short probe
                        // tree serialized by every serializer (ample limit / unlimited) gives exactly its own bytes
                        for (pn, pb) in [(probe_nil, &[0x80u8][..]), (probe_pair, &[0xff, 0x01, 0x80][..])] {
                            let outs = [("node_to_bytes_limit", node_to_bytes_limit(a, pn, 10)), ("node_to_bytes_backrefs_limit", node_to_bytes_backrefs_limit(a, pn, 10)), ("node_to_bytes", clvmr::serde::node_to_bytes(a, pn)), ("node_to_bytes_backrefs", node_to_bytes_backrefs(a, pn))];
                            for (name, o) in outs {
                                acc.inc("after_failure_probes");
                                match o {
                                    Ok(b) if b == pb => {}
                                    o => acc.violation(format!("{canon} then {name}({})", hx(pb)), format!("after the failed call the probe tree serializes to {:?}", o.map(|b| hx(&b)))),
                                }
                            }
                        }
                        match r {
                            Err(EvalErr::OutOfMemory) => acc.inc("below_limit_oom"),
                            Err(e) => {
                                // which token was being written when the limit was crossed
                                let tok = full[limit.min(full.len() - 1)];
                                acc.violation(canon, format!("limit {limit} < len {}: error '{e}' instead of out-of-memory (next output byte {tok:02x})", full.len()))
                            }
                            Ok(b) => acc.violation(canon, format!("limit {limit} < len {}: returned {} bytes", full.len(), b.len())),
                        }
                    }
                }
            }
            a.restore_checkpoint(&cp);
        });
        acc.maybe_sample(sample_key(seed, i), || json!({"tree": hx(&classic), "limits": format!("0..={}", classic.len() + 1)}));
    });
    rep.absorb(acc);
    rep.evaluations = rep.acc.get("evaluations");
    rep.nontrivial = rep.acc.get("below_limit_oom") + rep.acc.get("at_or_above_limit_ok");
    rep.states = total;
    rep.transitions = rep.evaluations;
    rep.traces = rep.evaluations;
    rep.rule = format!("every tree of TREES({k}, A6+100-byte+40-byte) (fresh) and TREES({}, {{nil,01,40-byte}}) (hash-consed, back-reference rich), every limit 0..=len+1, both limited serializers; oracle: L>=len => unlimited bytes, L<len => Err(OutOfMemory), and after every failed call two short probe trees serialize to exactly their own bytes through all four serializers (a failure leaves no state behind). Non-trivial = (tree, limit, serializer) triples whose outcome matched the oracle.", ctx.pick(4, 6));
    rep
}
