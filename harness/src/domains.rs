// Finite domains (DESIGN.md §2.3). Single source of truth.
use crate::tree::{T, atom};

pub fn a4() -> Vec<Vec<u8>> {
    vec![vec![], vec![1], vec![0x80], vec![0xff]]
}
pub fn a6() -> Vec<Vec<u8>> {
    vec![
        vec![],
        vec![1],
        vec![2],
        vec![0x80],
        vec![0x00, 0x80],
        vec![0xff],
    ]
}
pub fn a12() -> Vec<Vec<u8>> {
    let mut v = a6();
    v.extend([
        vec![0x00],
        vec![0x00, 0x01],
        vec![0x7f],
        vec![0xff, 0xff],
        vec![0x03, 0xff, 0xff, 0xff],
        vec![0x04, 0x00, 0x00, 0x00],
    ]);
    v
}
pub fn g1_gen() -> Vec<u8> {
    hex::decode("97f1d3a73197d7942695638c4fa9ac0fc3688c4f9774b905a14e3a3f171bac586c55e83ff97a1aeffb3af00adb22c6bb").unwrap()
}
pub fn g2_gen() -> Vec<u8> {
    hex::decode("93e02b6052719f607dacd3a088274f65596bd0d09920b61ab5da61bbdc7f5049334cf11213945d57e5ac7d055d042b7e024aa2b2f08f0a91260805272dc51051c6e47ad4fa403b02b4510b647ae3d1770bac0326a805bbefd48056c8c121bdb8").unwrap()
}
pub fn a24() -> Vec<Vec<u8>> {
    let mut v = a12();
    v.extend([
        vec![0x7f, 0xff, 0xff, 0xff],
        vec![0x80, 0x00, 0x00, 0x00],
        vec![0x00, 0x80, 0x00, 0x00, 0x00],
        vec![0x7f; 8],
        {
            let mut x = vec![0x00];
            x.extend([0xff; 8]);
            x
        },
        {
            let mut x = vec![0x01];
            x.extend([0x00; 8]);
            x
        },
        (0..32).map(|i| (i * 7 + 3) as u8).collect(),
        (0..33).map(|i| (i * 5 + 0x81) as u8).collect(),
        g1_gen(),
        g2_gen(),
        (0..63).map(|i| (i * 3 + 1) as u8).collect(),
        (0..64).map(|i| (i * 11 + 0x40) as u8).collect(),
    ]);
    v
}
pub fn big_sizes() -> Vec<usize> {
    vec![257, 300, 1025, 1100, 2049, 2100]
}
pub fn big_atom(n: usize) -> Vec<u8> {
    // positive integer with n bytes, deterministic contents
    let mut v: Vec<u8> = (0..n).map(|i| ((i * 31 + 7) % 251) as u8).collect();
    v[0] = 0x5a;
    v
}
pub fn atoms_t(v: &[Vec<u8>]) -> Vec<T> {
    v.iter().map(|b| atom(b)).collect()
}

pub const SIGMA_CLASSIC: [u8; 15] = [
    0x00, 0x01, 0x02, 0x7f, 0x80, 0x81, 0xbf, 0xc0, 0xc1, 0xe0, 0xf0, 0xf8, 0xfc, 0xfe, 0xff,
];

/// all byte strings of length exactly n over alphabet: index -> string
pub fn nth_bytes(alpha: &[u8], n: usize, mut i: u64, out: &mut Vec<u8>) {
    out.clear();
    out.resize(n, 0);
    let k = alpha.len() as u64;
    for j in (0..n).rev() {
        out[j] = alpha[(i % k) as usize];
        i /= k;
    }
}
pub fn count_bytes_upto(k: u64, n: usize) -> u64 {
    (0..=n).map(|l| k.pow(l as u32)).sum()
}
/// index into the space of all strings of length <= n over alpha, shortest first
pub fn nth_bytes_upto(alpha: &[u8], n: usize, mut i: u64, out: &mut Vec<u8>) {
    let k = alpha.len() as u64;
    for l in 0..=n {
        let c = k.pow(l as u32);
        if i < c {
            nth_bytes(alpha, l, i, out);
            return;
        }
        i -= c;
    }
    panic!("index out of range");
}
pub fn all_bytes() -> Vec<u8> {
    (0..=255u8).collect()
}
