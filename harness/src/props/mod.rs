pub mod c21;

use crate::common::{Ctx, Report};
pub fn dispatch(p: &str, ctx: &Ctx) -> Option<Report> {
    Some(match p {
        "C21" => c21::run(ctx),
        _ => return None,
    })
}
